//! Score-state generation (M4; C12, C13): the four `generate_state` functions driven through
//! the public attributes path with arbitrary attribute shapes.

use std::panic::{catch_unwind, AssertUnwindSafe};

use rosu_mods::{GameModIntermode, GameModsIntermode};
use rosu_pp::{
    any::HitResultPriority,
    catch::{CatchDifficultyAttributes, CatchPerformance, CatchScoreState},
    mania::{ManiaDifficultyAttributes, ManiaPerformance, ManiaScoreState},
    osu::{OsuDifficultyAttributes, OsuPerformance, OsuScoreState},
    taiko::{TaikoDifficultyAttributes, TaikoPerformance, TaikoScoreState},
};

use crate::{
    canon::Canon,
    grad::panic_msg,
    json::{arr, Obj},
    rng::Rng,
};

#[derive(Clone, Debug)]
pub struct GsCase {
    pub mode: u8,
    pub attrs: Vec<u32>,
    pub opts: Vec<Option<u32>>,
    /// percent, as handed to `.accuracy()`
    pub acc: Option<f64>,
    /// 0 = BestCase, 1 = WorstCase
    pub prio: u8,
    pub lazer: Option<bool>,
    pub cl: bool,
    pub passed: Option<u32>,
}

fn prio(p: u8) -> HitResultPriority {
    if p == 0 {
        HitResultPriority::BestCase
    } else {
        HitResultPriority::WorstCase
    }
}

fn mods_of(c: &GsCase) -> GameModsIntermode {
    let mut m = GameModsIntermode::new();
    if c.cl {
        m.insert(GameModIntermode::Classic);
    }
    m
}

fn osu_attrs(a: &[u32]) -> OsuDifficultyAttributes {
    OsuDifficultyAttributes {
        n_circles: a[0],
        n_sliders: a[1],
        n_spinners: a[2],
        n_large_ticks: a[3],
        max_combo: a[4],
        ..Default::default()
    }
}

/// The Classic mod in one of its four equivalent spellings (picked from the case's numbers, so the
/// same case always gets the same one): intermode CL, lazer ClassicOsu with the setting left at its
/// default, lazer ClassicOsu with `no_slider_head_accuracy: Some(true)`.
fn osu_mods_of(c: &GsCase) -> rosu_pp::model::mods::GameMods {
    use rosu_mods::{generated_mods::ClassicOsu, GameMod, GameMods as Lazer};
    if !c.cl {
        return mods_of(c).into();
    }
    let pick = c.attrs.iter().sum::<u32>() as usize + c.opts.iter().flatten().count();
    match pick % 4 {
        0 => mods_of(c).into(),
        3 => {
            // by reference, next to a mod that has a legacy bit (Hidden does not matter to the state)
            let mut m = mods_of(c);
            m.insert(GameModIntermode::Hidden);
            rosu_pp::model::mods::GameMods::from(&m)
        }
        1 => {
            let mut m = Lazer::new();
            m.insert(GameMod::ClassicOsu(ClassicOsu::default()));
            m.into()
        }
        _ => {
            let mut m = Lazer::new();
            m.insert(GameMod::ClassicOsu(ClassicOsu { no_slider_head_accuracy: Some(true), ..Default::default() }));
            m.into()
        }
    }
}

/// mania: the intermode Classic mod, owned or by reference next to a legacy-bit mod
fn mania_mods_of(c: &GsCase) -> rosu_pp::model::mods::GameMods {
    let pick = c.attrs.iter().sum::<u32>() as usize + c.opts.iter().flatten().count();
    if c.cl && pick % 2 == 1 {
        let mut m = mods_of(c);
        m.insert(GameModIntermode::Hidden);
        rosu_pp::model::mods::GameMods::from(&m)
    } else {
        mods_of(c).into()
    }
}

fn osu_perf(c: &GsCase) -> OsuPerformance<'static> {
    let mut p = OsuPerformance::new(osu_attrs(&c.attrs))
        .mods(osu_mods_of(c))
        .hitresult_priority(prio(c.prio));
    if let Some(l) = c.lazer {
        p = p.lazer(l);
    }
    if let Some(n) = c.passed {
        p = p.passed_objects(n);
    }
    if let Some(a) = c.acc {
        p = p.accuracy(a);
    }
    let o = &c.opts;
    if let Some(v) = o[0] {
        p = p.combo(v);
    }
    if let Some(v) = o[1] {
        p = p.n300(v);
    }
    if let Some(v) = o[2] {
        p = p.n100(v);
    }
    if let Some(v) = o[3] {
        p = p.n50(v);
    }
    if let Some(v) = o[4] {
        p = p.misses(v);
    }
    if let Some(v) = o[5] {
        p = p.large_tick_hits(v);
    }
    if let Some(v) = o[6] {
        p = p.small_tick_hits(v);
    }
    if let Some(v) = o[7] {
        p = p.slider_end_hits(v);
    }
    p
}

fn osu_state_vec(s: &OsuScoreState) -> Vec<u32> {
    vec![
        s.max_combo,
        s.large_tick_hits,
        s.small_tick_hits,
        s.slider_end_hits,
        s.n300,
        s.n100,
        s.n50,
        s.misses,
    ]
}

fn taiko_perf(c: &GsCase) -> TaikoPerformance<'static> {
    let attrs = TaikoDifficultyAttributes {
        max_combo: c.attrs[0],
        ..Default::default()
    };
    let mut p = TaikoPerformance::new(attrs)
        .mods(mods_of(c))
        .hitresult_priority(prio(c.prio));
    if let Some(n) = c.passed {
        p = p.passed_objects(n);
    }
    if let Some(a) = c.acc {
        p = p.accuracy(a);
    }
    let o = &c.opts;
    if let Some(v) = o[0] {
        p = p.combo(v);
    }
    if let Some(v) = o[1] {
        p = p.n300(v);
    }
    if let Some(v) = o[2] {
        p = p.n100(v);
    }
    if let Some(v) = o[3] {
        p = p.misses(v);
    }
    p
}

fn catch_perf(c: &GsCase) -> CatchPerformance<'static> {
    let attrs = CatchDifficultyAttributes {
        n_fruits: c.attrs[0],
        n_droplets: c.attrs[1],
        n_tiny_droplets: c.attrs[2],
        ..Default::default()
    };
    let mut p = CatchPerformance::new(attrs).mods(mods_of(c));
    if let Some(n) = c.passed {
        p = p.passed_objects(n);
    }
    if let Some(a) = c.acc {
        p = p.accuracy(a);
    }
    let o = &c.opts;
    if let Some(v) = o[0] {
        p = p.combo(v);
    }
    if let Some(v) = o[1] {
        p = p.fruits(v);
    }
    if let Some(v) = o[2] {
        p = p.droplets(v);
    }
    if let Some(v) = o[3] {
        p = p.tiny_droplets(v);
    }
    if let Some(v) = o[4] {
        p = p.tiny_droplet_misses(v);
    }
    if let Some(v) = o[5] {
        p = p.misses(v);
    }
    p
}

fn mania_perf(c: &GsCase) -> ManiaPerformance<'static> {
    let attrs = ManiaDifficultyAttributes {
        n_objects: c.attrs[0],
        n_hold_notes: c.attrs[1],
        max_combo: c.attrs[2],
        ..Default::default()
    };
    let mut p = ManiaPerformance::new(attrs)
        .mods(mania_mods_of(c))
        .hitresult_priority(prio(c.prio));
    if let Some(l) = c.lazer {
        p = p.lazer(l);
    }
    if let Some(n) = c.passed {
        p = p.passed_objects(n);
    }
    if let Some(a) = c.acc {
        p = p.accuracy(a);
    }
    let o = &c.opts;
    if let Some(v) = o[0] {
        p = p.n320(v);
    }
    if let Some(v) = o[1] {
        p = p.n300(v);
    }
    if let Some(v) = o[2] {
        p = p.n200(v);
    }
    if let Some(v) = o[3] {
        p = p.n100(v);
    }
    if let Some(v) = o[4] {
        p = p.n50(v);
    }
    if let Some(v) = o[5] {
        p = p.misses(v);
    }
    p
}

/// (state, state of a second `generate_state` call on the same builder,
///  calculate() == state(generated).calculate())
fn run_case(c: &GsCase) -> (Vec<u32>, Vec<u32>, bool) {
    match c.mode {
        0 => {
            let mut p = osu_perf(c);
            let s1 = p.generate_state().unwrap();
            let s2 = p.generate_state().unwrap();
            let a = osu_perf(c).calculate().unwrap().json();
            let b = osu_perf(c).state(s1.clone()).calculate().unwrap().json();
            // the same state handed over through the mode-agnostic ScoreState / Performance enum
            let g = match rosu_pp::Performance::Osu(osu_perf(c)).state(rosu_pp::any::ScoreState::from(s1.clone())).calculate() {
                rosu_pp::any::PerformanceAttributes::Osu(x) => x.json(),
                _ => String::new(),
            };
            (osu_state_vec(&s1), osu_state_vec(&s2), a == b && g == b)
        }
        1 => {
            let v = |s: &TaikoScoreState| vec![s.max_combo, s.n300, s.n100, s.misses];
            let mut p = taiko_perf(c);
            let s1 = p.generate_state().unwrap();
            let s2 = p.generate_state().unwrap();
            let a = taiko_perf(c).calculate().unwrap().json();
            let b = taiko_perf(c).state(s1.clone()).calculate().unwrap().json();
            let g = match rosu_pp::Performance::Taiko(taiko_perf(c)).state(rosu_pp::any::ScoreState::from(s1.clone())).calculate() {
                rosu_pp::any::PerformanceAttributes::Taiko(x) => x.json(),
                _ => String::new(),
            };
            (v(&s1), v(&s2), a == b && g == b)
        }
        2 => {
            let v = |s: &CatchScoreState| {
                vec![
                    s.max_combo,
                    s.fruits,
                    s.droplets,
                    s.tiny_droplets,
                    s.tiny_droplet_misses,
                    s.misses,
                ]
            };
            let mut p = catch_perf(c);
            let s1 = p.generate_state().unwrap();
            let s2 = p.generate_state().unwrap();
            let a = catch_perf(c).calculate().unwrap().json();
            let b = catch_perf(c).state(s1.clone()).calculate().unwrap().json();
            let g = match rosu_pp::Performance::Catch(catch_perf(c)).state(rosu_pp::any::ScoreState::from(s1.clone())).calculate() {
                rosu_pp::any::PerformanceAttributes::Catch(x) => x.json(),
                _ => String::new(),
            };
            (v(&s1), v(&s2), a == b && g == b)
        }
        _ => {
            let v = |s: &ManiaScoreState| vec![s.n320, s.n300, s.n200, s.n100, s.n50, s.misses];
            let mut p = mania_perf(c);
            let s1 = p.generate_state().unwrap();
            let s2 = p.generate_state().unwrap();
            let a = mania_perf(c).calculate().unwrap().json();
            let b = mania_perf(c).state(s1.clone()).calculate().unwrap().json();
            let g = match rosu_pp::Performance::Mania(mania_perf(c)).state(rosu_pp::any::ScoreState::from(s1.clone())).calculate() {
                rosu_pp::any::PerformanceAttributes::Mania(x) => x.json(),
                _ => String::new(),
            };
            (v(&s1), v(&s2), a == b && g == b)
        }
    }
}

fn opt(v: Option<u32>) -> String {
    v.map_or("null".to_string(), |x| x.to_string())
}

/// C13 measured with the PUBLIC accuracy functions: (|target - accuracy(generated)|, the smallest
/// |target - accuracy(other)| over every other distribution of hit results over the same objects and
/// misses, everything else of the generated state kept).  Only for small shapes.
fn public_measure(c: &GsCase) -> Option<(f64, f64)> {
    let target = c.acc?.clamp(0.0, 100.0) / 100.0;
    let dist = |a: f64| (target - a).abs();
    match c.mode {
        0 => {
            let mut p = osu_perf(c);
            let s = p.generate_state().ok()?;
            let lazer = c.lazer.unwrap_or(true);
            let origin = match (lazer, c.cl) {
                (false, _) => rosu_pp::osu::OsuScoreOrigin::Stable,
                (true, false) => rosu_pp::osu::OsuScoreOrigin::WithSliderAcc {
                    max_large_ticks: c.attrs[3],
                    max_slider_ends: c.attrs[1],
                },
                (true, true) => rosu_pp::osu::OsuScoreOrigin::WithoutSliderAcc {
                    max_large_ticks: c.attrs[1] + c.attrs[3],
                    max_small_ticks: c.attrs[1],
                },
            };
            let n = s.n300 + s.n100 + s.n50;
            if n > 40 {
                return None;
            }
            let gen = dist(s.accuracy(origin));
            let mut best = f64::INFINITY;
            for a in 0..=n {
                for b in 0..=(n - a) {
                    let t = OsuScoreState { n300: a, n100: b, n50: n - a - b, ..s.clone() };
                    best = best.min(dist(t.accuracy(origin)));
                }
            }
            Some((gen, best))
        }
        1 => {
            let mut p = taiko_perf(c);
            let s = p.generate_state().ok()?;
            let n = s.n300 + s.n100;
            if n > 200 {
                return None;
            }
            let gen = dist(s.accuracy());
            let mut best = f64::INFINITY;
            for a in 0..=n {
                let t = TaikoScoreState { n300: a, n100: n - a, ..s.clone() };
                best = best.min(dist(t.accuracy()));
            }
            Some((gen, best))
        }
        2 => {
            let mut p = catch_perf(c);
            let s = p.generate_state().ok()?;
            let n = s.tiny_droplets + s.tiny_droplet_misses;
            if n > 200 {
                return None;
            }
            let gen = dist(s.accuracy());
            let mut best = f64::INFINITY;
            for a in 0..=n {
                let t = CatchScoreState { tiny_droplets: a, tiny_droplet_misses: n - a, ..s.clone() };
                best = best.min(dist(t.accuracy()));
            }
            Some((gen, best))
        }
        _ => {
            let mut p = mania_perf(c);
            let s = p.generate_state().ok()?;
            let n = s.n320 + s.n300 + s.n200 + s.n100 + s.n50;
            if n > 12 {
                return None;
            }
            let classic = c.cl || !c.lazer.unwrap_or(true);
            let gen = dist(s.accuracy(classic));
            let mut best = f64::INFINITY;
            for a in 0..=n {
                for b in 0..=(n - a) {
                    for d in 0..=(n - a - b) {
                        for e in 0..=(n - a - b - d) {
                            let t = ManiaScoreState {
                                n320: a,
                                n300: b,
                                n200: d,
                                n100: e,
                                n50: n - a - b - d - e,
                                ..s.clone()
                            };
                            best = best.min(dist(t.accuracy(classic)));
                        }
                    }
                }
            }
            Some((gen, best))
        }
    }
}

/// The same play configured through the mode-agnostic `Performance` enum: the lazer flag is set with
/// the enum's setter (after wrapping), the state generated through the enum.
fn enum_state(c: &GsCase) -> rosu_pp::any::ScoreState {
    let mut c2 = c.clone();
    c2.lazer = None;
    let mut e = match c.mode {
        0 => rosu_pp::Performance::Osu(osu_perf(&c2)),
        1 => rosu_pp::Performance::Taiko(taiko_perf(&c2)),
        2 => rosu_pp::Performance::Catch(catch_perf(&c2)),
        _ => rosu_pp::Performance::Mania(mania_perf(&c2)),
    };
    if let Some(l) = c.lazer {
        e = e.lazer(l);
    }
    e.generate_state()
}

pub fn case_json(c: &GsCase) -> String {
    let o = Obj::new()
        .raw("mode", c.mode)
        .raw("attrs", arr(c.attrs.iter()))
        .raw("opts", arr(c.opts.iter().map(|v| opt(*v))))
        .raw(
            "acc",
            c.acc
                .map_or("null".to_string(), |a| a.to_bits().to_string()),
        )
        .raw(
            "acc01",
            c.acc.map_or("null".to_string(), |a| {
                (a.clamp(0.0, 100.0) / 100.0).to_bits().to_string()
            }),
        )
        .raw("prio", c.prio)
        .raw(
            "lazer",
            c.lazer.map_or("null".to_string(), |b| b.to_string()),
        )
        .raw("cl", c.cl)
        .raw("passed", opt(c.passed));
    let o = match catch_unwind(AssertUnwindSafe(|| public_measure(c))) {
        Ok(Some((g, b))) => o.raw("pub_gen", g.to_bits()).raw("pub_best", b.to_bits()),
        Ok(None) => o,
        Err(e) => o.str("panic_public_measure", &panic_msg(e)),
    };
    let o = match catch_unwind(AssertUnwindSafe(|| {
        let via_enum = enum_state(c);
        let direct: rosu_pp::any::ScoreState = match c.mode {
            0 => osu_perf(c).generate_state().unwrap().into(),
            1 => taiko_perf(c).generate_state().unwrap().into(),
            2 => catch_perf(c).generate_state().unwrap().into(),
            _ => mania_perf(c).generate_state().unwrap().into(),
        };
        via_enum == direct
    })) {
        Ok(eq) => o.raw("enum_eq", eq),
        Err(e) => o.str("panic_enum", &panic_msg(e)),
    };
    match catch_unwind(AssertUnwindSafe(|| run_case(c))) {
        Ok((s1, s2, eq)) => o
            .raw("out", arr(s1))
            .raw("out2", arr(s2))
            .raw("calc_eq", eq)
            .done(),
        Err(e) => o.str("panic", &panic_msg(e)).done(),
    }
}

const ACC_GRID: &[f64] = &[
    0.0, 5.0, 10.0, 20.0, 25.0, 33.333333333333336, 40.0, 50.0, 60.0, 66.66666666666667, 70.0,
    75.0, 80.0, 85.0, 88.5, 90.0, 92.25, 95.0, 97.5, 98.76, 99.0, 99.5, 100.0,
];

/// The exhaustive small domain of C13: accuracy (+ misses) only, no hit results.
pub fn enumerate(mode: u8) -> Vec<GsCase> {
    let mut v = Vec::new();
    match mode {
        0 => {
            for n in 0..=8u32 {
                for sliders in 0..=n.min(3) {
                    for ticks in 0..=2u32 {
                        if sliders == 0 && ticks > 0 {
                            continue;
                        }
                        for misses in 0..=n {
                            for &(lazer, cl) in &[(false, false), (true, false), (true, true)] {
                                for p in 0..2u8 {
                                    for &acc in ACC_GRID {
                                        let spinners = if n > sliders && n % 3 == 0 { 1 } else { 0 };
                                        let mut opts = vec![None; 8];
                                        opts[4] = Some(misses);
                                        v.push(GsCase {
                                            mode,
                                            attrs: vec![
                                                n - sliders - spinners,
                                                sliders,
                                                spinners,
                                                ticks,
                                                n + sliders + ticks,
                                            ],
                                            opts,
                                            acc: Some(acc),
                                            prio: p,
                                            lazer: Some(lazer),
                                            cl,
                                            passed: None,
                                        });
                                    }
                                }
                            }
                        }
                    }
                }
            }
        }
        1 => {
            for n in 0..=8u32 {
                for misses in 0..=n {
                    for p in 0..2u8 {
                        for &acc in ACC_GRID {
                            v.push(GsCase {
                                mode,
                                attrs: vec![n],
                                opts: vec![None, None, None, Some(misses)],
                                acc: Some(acc),
                                prio: p,
                                lazer: None,
                                cl: false,
                                passed: None,
                            });
                        }
                    }
                }
            }
        }
        2 => {
            for fruits in 0..=6u32 {
                for droplets in 0..=3u32 {
                    for tiny in 0..=6u32 {
                        for misses in 0..=(fruits + droplets) {
                            for &acc in ACC_GRID {
                                v.push(GsCase {
                                    mode,
                                    attrs: vec![fruits, droplets, tiny],
                                    opts: vec![None, None, None, None, None, Some(misses)],
                                    acc: Some(acc),
                                    prio: 0,
                                    lazer: None,
                                    cl: false,
                                    passed: None,
                                });
                            }
                        }
                    }
                }
            }
        }
        _ => {
            for n in 0..=8u32 {
                for holds in 0..=n.min(3) {
                    for misses in 0..=n {
                        for &(lazer, cl) in &[(false, false), (true, false), (true, true)] {
                            for p in 0..2u8 {
                                for &acc in ACC_GRID {
                                    v.push(GsCase {
                                        mode,
                                        attrs: vec![n, holds, n + holds],
                                        opts: vec![None, None, None, None, None, Some(misses)],
                                        acc: Some(acc),
                                        prio: p,
                                        lazer: Some(lazer),
                                        cl,
                                        passed: None,
                                    });
                                }
                            }
                        }
                    }
                }
            }
        }
    }
    v
}

fn gen_count(rng: &mut Rng, scale: u32) -> u32 {
    match rng.below(10) {
        0 => 0,
        1 => 1,
        2..=5 => rng.below(u64::from(scale.min(20)) + 1) as u32,
        _ => rng.below(u64::from(scale) + 1) as u32,
    }
}

/// A provided value: inside the object count, at it, slightly beyond, or far beyond.
fn gen_provided(rng: &mut Rng, total: u32) -> Option<u32> {
    match rng.below(10) {
        0..=3 => None,
        4..=6 => Some(rng.below(u64::from(total) + 1) as u32),
        7 => Some(total),
        8 => Some(total + 1 + rng.below(5) as u32),
        _ => Some(*rng.pick(&[0, 1, total.saturating_mul(3), 100_000])),
    }
}

pub fn gen_random(rng: &mut Rng) -> GsCase {
    let mode = rng.below(4) as u8;
    let scale = *rng.pick(&[3u32, 10, 50, 700, 3000]);
    let acc = if rng.chance(1, 2) {
        Some(match rng.below(6) {
            0 => *rng.pick(ACC_GRID),
            1 => *rng.pick(&[-5.0, 0.0, 100.0, 150.0]),
            _ => (rng.f64_range(0.0, 100.0) * 100.0).round() / 100.0,
        })
    } else {
        None
    };
    let lazer = match rng.below(3) {
        0 => None,
        1 => Some(true),
        _ => Some(false),
    };
    let cl = rng.chance(1, 4);
    let p = rng.below(2) as u8;
    match mode {
        0 => {
            let circles = gen_count(rng, scale);
            let sliders = gen_count(rng, scale);
            let spinners = gen_count(rng, 3);
            let ticks = gen_count(rng, scale);
            let n = circles + sliders + spinners;
            let max_combo = n + sliders + ticks + gen_count(rng, 3);
            let passed = if rng.chance(1, 4) {
                Some(rng.below(u64::from(n) + 3) as u32)
            } else {
                None
            };
            let opts = vec![
                gen_provided(rng, max_combo),
                gen_provided(rng, n),
                gen_provided(rng, n),
                gen_provided(rng, n),
                gen_provided(rng, n),
                gen_provided(rng, sliders + ticks),
                gen_provided(rng, sliders),
                gen_provided(rng, sliders),
            ];
            GsCase {
                mode,
                attrs: vec![circles, sliders, spinners, ticks, max_combo],
                opts,
                acc,
                prio: p,
                lazer,
                cl,
                passed,
            }
        }
        1 => {
            let n = gen_count(rng, scale);
            let passed = if rng.chance(1, 4) {
                Some(rng.below(u64::from(n) + 3) as u32)
            } else {
                None
            };
            GsCase {
                mode,
                attrs: vec![n],
                opts: vec![
                    gen_provided(rng, n),
                    gen_provided(rng, n),
                    gen_provided(rng, n),
                    gen_provided(rng, n),
                ],
                acc,
                prio: p,
                lazer: None,
                cl: false,
                passed,
            }
        }
        2 => {
            let fruits = gen_count(rng, scale);
            let droplets = gen_count(rng, scale / 2 + 1);
            let tiny = gen_count(rng, scale);
            let n = fruits + droplets;
            GsCase {
                mode,
                attrs: vec![fruits, droplets, tiny],
                opts: vec![
                    gen_provided(rng, n),
                    gen_provided(rng, fruits),
                    gen_provided(rng, droplets),
                    gen_provided(rng, tiny),
                    gen_provided(rng, tiny),
                    gen_provided(rng, n),
                ],
                acc,
                prio: 0,
                lazer: None,
                cl: false,
                passed: None,
            }
        }
        _ => {
            // mania's search is cubic in the object count: keep it moderate
            let n = gen_count(rng, scale.min(60));
            let holds = gen_count(rng, n);
            let passed = if rng.chance(1, 4) {
                Some(rng.below(u64::from(n) + 3) as u32)
            } else {
                None
            };
            GsCase {
                mode,
                attrs: vec![n, holds.min(n), n + holds.min(n)],
                opts: vec![
                    gen_provided(rng, n),
                    gen_provided(rng, n),
                    gen_provided(rng, n),
                    gen_provided(rng, n),
                    gen_provided(rng, n),
                    gen_provided(rng, n),
                ],
                acc,
                prio: p,
                lazer,
                cl,
                passed,
            }
        }
    }
}

pub fn main_exh(mode: u8, stride: u64, offset: u64) {
    for (i, c) in enumerate(mode).iter().enumerate() {
        if (i as u64) % stride.max(1) == offset % stride.max(1) {
            println!("{{\"id\":{i},{}", &case_json(c)[1..]);
        }
    }
}

pub fn main_rand(seed: u64, count: u64) {
    for k in 0..count {
        let mut rng = Rng::fork(seed ^ 0x6773, k);
        let c = gen_random(&mut rng);
        println!("{{\"id\":{k},{}", &case_json(&c)[1..]);
    }
}
