//! Operation-sequence differential driver for `util::strains_vec::StrainsVec` (M1).

use rosu_pp::verif::{difficulty_value, StrainsVec};

use crate::{
    json::{arr, Obj},
    rng::Rng,
};

/// Corner pool of 64-bit words: zeros, subnormals, ones, infinities, NaNs of both signs.
pub const POOL: &[u64] = &[
    0,
    0x8000_0000_0000_0000,
    1,
    0x8000_0000_0000_0001,
    0x000F_FFFF_FFFF_FFFF,
    0x0010_0000_0000_0000,
    0x3FF0_0000_0000_0000,
    0xBFF0_0000_0000_0000,
    0x4000_0000_0000_0000,
    0x7FEF_FFFF_FFFF_FFFF,
    0x7FF0_0000_0000_0000,
    0xFFF0_0000_0000_0000,
    0x7FF8_0000_0000_0000,
    0xFFF8_0000_0000_0000,
    0x7FF0_0000_0000_0001,
    0xFFFF_FFFF_FFFF_FFFF,
    0x7FFF_FFFF_FFFF_FFFF,
];

fn gen_word(rng: &mut Rng, realistic: bool) -> u64 {
    if realistic {
        // what skills push: +0 or a positive finite number
        match rng.below(10) {
            0..=3 => 0,
            4..=8 => rng.f64_range(0.0, 2000.0).to_bits(),
            _ => *rng.pick(&[0x1u64, 0x0010_0000_0000_0000, 0x3FF0_0000_0000_0000]),
        }
    } else {
        match rng.below(10) {
            0..=2 => 0,
            3 => 0x8000_0000_0000_0000,
            4..=5 => *rng.pick(POOL),
            6..=7 => rng.f64_range(0.0, 1000.0).to_bits(),
            8 => rng.f64_range(-1000.0, 0.0).to_bits(),
            _ => rng.u64(),
        }
    }
}

pub enum Op {
    Push(u64),
    Retain,
    Sort,
    RetainSort,
}

pub fn gen_ops(rng: &mut Rng) -> (Vec<Op>, bool) {
    let realistic = rng.chance(1, 3);
    let n = match rng.below(10) {
        0 => rng.below(3),
        1..=6 => rng.below(24),
        _ => rng.below(120),
    };
    let mut ops = Vec::new();
    // `sort_desc` may only be called while no zero is stored (debug assertion)
    let mut has_zero = false;
    for _ in 0..n {
        match rng.below(20) {
            0 => {
                ops.push(Op::Retain);
                has_zero = false;
            }
            1 => {
                ops.push(Op::RetainSort);
                has_zero = false;
            }
            2 if !has_zero => ops.push(Op::Sort),
            _ => {
                let w = gen_word(rng, realistic);
                let is_value = w > 0 && w < (1 << 63);
                has_zero |= !is_value;
                // long zero runs
                if !is_value && rng.chance(1, 4) {
                    for _ in 0..rng.below(40) {
                        ops.push(Op::Push(w));
                    }
                }
                ops.push(Op::Push(w));
            }
        }
    }
    (ops, realistic)
}

pub fn ops_json(ops: &[Op]) -> String {
    arr(ops.iter().map(|o| match o {
        Op::Push(w) => format!("[\"push\",{w}]"),
        Op::Retain => "\"retain\"".to_string(),
        Op::Sort => "\"sort\"".to_string(),
        Op::RetainSort => "\"retain_sort\"".to_string(),
    }))
}

/// Runs `ops` on the real type and reports every observation.
pub fn run_ops(ops: &[Op]) -> String {
    let mut v = StrainsVec::with_capacity(0);
    for op in ops {
        match op {
            Op::Push(w) => v.push(f64::from_bits(*w)),
            Op::Retain => v.retain_non_zero(),
            Op::Sort => v.sort_desc(),
            Op::RetainSort => v.retain_non_zero_and_sort(),
        }
    }
    let len = v.len();
    let iter: Vec<u64> = v.iter().map(f64::to_bits).collect();
    let into_vec: Vec<u64> = v.clone().into_vec().into_iter().map(f64::to_bits).collect();
    let sum = v.sum();
    let mut sorted = v.clone();
    sorted.retain_non_zero_and_sort();
    // SAFETY: zeros were just removed
    let sorted: Vec<u64> = unsafe { sorted.transmute_into_vec() }
        .into_iter()
        .map(f64::to_bits)
        .collect();
    let mut mutated = v.clone();
    let via_iter_mut: Vec<u64> = mutated
        .sorted_non_zero_iter_mut()
        .map(|x| x.to_bits())
        .collect();
    let dv = difficulty_value(v.clone(), 0.9);

    Obj::new()
        .raw("ops", ops_json(ops))
        .raw("len", len)
        .raw("iter", arr(iter))
        .raw("into_vec", arr(into_vec))
        .f("sum", sum)
        .raw("sorted", arr(sorted))
        .raw("iter_mut", arr(via_iter_mut))
        .f("dv", dv)
        .done()
}

pub fn main(seed: u64, count: u64) {
    for k in 0..count {
        let mut rng = Rng::fork(seed, k);
        let (ops, realistic) = gen_ops(&mut rng);
        let line = run_ops(&ops);
        println!(
            "{{\"id\":{k},\"realistic\":{realistic},{}",
            &line[1..]
        );
    }
}
