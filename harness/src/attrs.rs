//! `BeatmapAttributesBuilder` (M5; C17): traces for the bit-exact Coq model and the direct
//! oracles (self-consistency, round trip, monotonicity, clock-rate scaling, HR/EZ ordering,
//! agreement with the difficulty attributes).

use std::panic::{catch_unwind, AssertUnwindSafe};

use rosu_mods::{GameMods as GameModsLazer, GameModsIntermode};
use rosu_pp::{
    model::beatmap::{BeatmapAttributes, BeatmapAttributesBuilder, HitWindows},
    Beatmap, Difficulty,
};

use crate::{
    gen::{gen_any, GenOpts},
    grad::{mode_of, panic_msg},
    json::{arr, Obj},
    rng::Rng,
    settings::{gen_settings, EZ, HR},
};

#[derive(Clone, Debug)]
pub struct Case {
    pub mode: u8,
    pub conv: bool,
    /// map values (ar, od, cs, hp)
    pub map: [f32; 4],
    /// overrides (ar, od, cs, hp): value, with_mods
    pub custom: [Option<(f32, bool)>; 4],
    pub bits: u32,
    /// lazer DifficultyAdjust (ar, od, cs, hp)
    pub da: [Option<f64>; 4],
    pub clock: Option<f64>,
    /// go through `Difficulty` (clamps) instead of the builder's own setters
    pub via_difficulty: bool,
}

fn pick_value(rng: &mut Rng, wide: bool) -> f32 {
    match rng.below(10) {
        0 => 0.0,
        1 => 10.0,
        2 => 5.0,
        3 if wide => -20.0,
        4 if wide => 20.0,
        5 if wide => ((rng.f64_range(-20.0, 20.0) * 8.0).round() / 8.0) as f32,
        6 => rng.f64_range(0.0, 10.0) as f32,
        _ => ((rng.f64_range(0.0, 10.0) * 10.0).round() / 10.0) as f32,
    }
}

pub fn gen_case(rng: &mut Rng) -> Case {
    let mode = rng.below(4) as u8;
    let wide = rng.chance(1, 3);
    let mut custom = [None; 4];
    for c in &mut custom {
        if rng.chance(1, 2) {
            *c = Some((pick_value(rng, wide), rng.chance(1, 2)));
        }
    }
    let mut bits = 0;
    match rng.below(4) {
        0 => bits |= HR,
        1 => bits |= EZ,
        _ => {}
    }
    match rng.below(5) {
        0 => bits |= 64,
        1 => bits |= 256,
        2 => bits |= 512 | 64,
        _ => {}
    }
    let mut da = [None; 4];
    if rng.chance(1, 4) {
        for (i, d) in da.iter_mut().enumerate() {
            // ar/cs exist for osu and catch only
            if (i == 0 || i == 2) && (mode == 1 || mode == 3) {
                continue;
            }
            if rng.chance(1, 2) {
                *d = Some(f64::from(pick_value(rng, false)));
            }
        }
    }
    let clock = match rng.below(6) {
        0 => Some(0.01),
        1 => Some(100.0),
        2 | 3 => Some((rng.f64_range(0.3, 3.0) * 100.0).round() / 100.0),
        _ => None,
    };
    let (w0, w1) = (wide && rng.chance(1, 3), wide && rng.chance(1, 3));
    Case {
        mode,
        conv: mode != 0 && rng.chance(1, 3),
        map: [
            pick_value(rng, w0),
            pick_value(rng, w1),
            pick_value(rng, false),
            pick_value(rng, false),
        ],
        custom,
        bits,
        da,
        clock,
        via_difficulty: rng.chance(1, 2),
    }
}

fn lazer_mods(c: &Case) -> GameModsLazer {
    let mode = match c.mode {
        0 => rosu_mods::GameMode::Osu,
        1 => rosu_mods::GameMode::Taiko,
        2 => rosu_mods::GameMode::Catch,
        _ => rosu_mods::GameMode::Mania,
    };
    let mut mods = GameModsLazer::from_intermode(&GameModsIntermode::from_bits(c.bits), mode);
    mods.insert(crate::eqv::lazer_da_pub(c.mode, c.da[0], c.da[2], c.da[3], c.da[1]));
    mods
}

fn has_da(c: &Case) -> bool {
    c.da.iter().any(Option::is_some)
}

pub fn builder_of(c: &Case) -> BeatmapAttributesBuilder {
    let map = Beatmap {
        mode: mode_of(c.mode),
        is_convert: c.conv,
        ar: c.map[0],
        od: c.map[1],
        cs: c.map[2],
        hp: c.map[3],
        ..Default::default()
    };
    let mut b = BeatmapAttributesBuilder::new().map(&map);
    if c.via_difficulty {
        let mut d = Difficulty::new();
        d = if has_da(c) { d.mods(lazer_mods(c)) } else { d.mods(c.bits) };
        if let Some(cr) = c.clock {
            d = d.clock_rate(cr);
        }
        if let Some((v, f)) = c.custom[0] {
            d = d.ar(v, f);
        }
        if let Some((v, f)) = c.custom[1] {
            d = d.od(v, f);
        }
        if let Some((v, f)) = c.custom[2] {
            d = d.cs(v, f);
        }
        if let Some((v, f)) = c.custom[3] {
            d = d.hp(v, f);
        }
        b = b.difficulty(&d);
    } else {
        b = if has_da(c) { b.mods(lazer_mods(c)) } else { b.mods(c.bits) };
        if let Some(cr) = c.clock {
            b = b.clock_rate(cr);
        }
        if let Some((v, f)) = c.custom[0] {
            b = b.ar(v, f);
        }
        if let Some((v, f)) = c.custom[1] {
            b = b.od(v, f);
        }
        if let Some((v, f)) = c.custom[2] {
            b = b.cs(v, f);
        }
        if let Some((v, f)) = c.custom[3] {
            b = b.hp(v, f);
        }
    }
    b
}

fn ob(o: Option<f64>) -> String {
    o.map_or("null".to_string(), |x| x.to_bits().to_string())
}

fn hw_json(h: &HitWindows) -> String {
    format!(
        "[{},{},{},{}]",
        h.ar.to_bits(),
        h.od_great.to_bits(),
        ob(h.od_ok),
        ob(h.od_meh)
    )
}

fn attrs_json(a: &BeatmapAttributes) -> String {
    format!(
        "[{},{},{},{},{},{},{},{},{}]",
        a.ar.to_bits(),
        a.od.to_bits(),
        a.cs.to_bits(),
        a.hp.to_bits(),
        a.clock_rate.to_bits(),
        a.hit_windows.ar.to_bits(),
        a.hit_windows.od_great.to_bits(),
        ob(a.hit_windows.od_ok),
        ob(a.hit_windows.od_meh)
    )
}

fn case_json(c: &Case) -> String {
    let cu = |o: Option<(f32, bool)>| match o {
        Some((v, f)) => {
            // a value that went through `Difficulty` is clamped to [-20, 20] there
            let v = if c.via_difficulty { v.clamp(-20.0, 20.0) } else { v };
            format!("[{},{}]", v.to_bits(), f)
        }
        None => "null".to_string(),
    };
    Obj::new()
        .raw("mode", c.mode)
        .raw("conv", c.conv)
        .raw("map", arr(c.map.iter().map(|v| v.to_bits())))
        .raw("custom", arr(c.custom.iter().map(|o| cu(*o))))
        .raw("bits", c.bits)
        .raw("da", arr(c.da.iter().map(|o| ob(*o))))
        .raw("clock", ob(c.clock))
        .raw("via_difficulty", c.via_difficulty)
        .done()
}

fn close(a: f64, b: f64) -> bool {
    (a - b).abs() <= 1e-9 * (1.0 + a.abs().max(b.abs()))
}

fn le(a: f64, b: f64) -> bool {
    a <= b + 1e-9 * (1.0 + a.abs().max(b.abs()))
}

fn windows(h: &HitWindows) -> Vec<f64> {
    let mut v = vec![h.od_great];
    v.extend(h.od_ok);
    v.extend(h.od_meh);
    v
}

/// The direct oracles of C17 on one case; returns failure descriptions.
pub fn oracles(c: &Case) -> Vec<String> {
    let mut fails = Vec::new();
    let b = builder_of(c);
    let a = b.build();
    let h = b.hit_windows();
    if hw_json(&h) != hw_json(&a.hit_windows) {
        fails.push(format!("hit_windows() {h:?} != build().hit_windows {:?}", a.hit_windows));
    }
    // round trip of values supplied with with_mods = true, in [0, 10]
    let reported = [a.ar, a.od, a.cs, a.hp];
    for (i, name) in ["ar", "od", "cs", "hp"].iter().enumerate() {
        if let Some((v, true)) = c.custom[i] {
            if (0.0..=10.0).contains(&v) && !close(reported[i], f64::from(v)) {
                fails.push(format!("{name}={v} supplied with with_mods=true is reported as {}", reported[i]));
            }
        }
    }
    // monotone: a larger AR / OD never gives a larger window
    for (i, name) in [(0usize, "ar"), (1, "od")] {
        let with_mods = c.custom[i].map_or(false, |(_, f)| f);
        let mut prev: Option<(f32, HitWindows)> = None;
        for k in 0..=20 {
            let v = k as f32 * 0.5;
            let mut c2 = c.clone();
            c2.custom[i] = Some((v, with_mods));
            c2.da[i] = None;
            let h2 = builder_of(&c2).hit_windows();
            if let Some((pv, ph)) = prev {
                let ok = if i == 0 {
                    le(h2.ar, ph.ar)
                } else {
                    windows(&h2).iter().zip(windows(&ph)).all(|(x, y)| le(*x, y))
                };
                if !ok {
                    fails.push(format!("windows grow from {name}={pv} to {name}={v}: {ph:?} -> {h2:?}"));
                    break;
                }
            }
            prev = Some((v, h2));
        }
    }
    // inverse clock-rate scaling (not mania, with_mods = false)
    let rate = a.clock_rate;
    {
        let mut c1 = c.clone();
        c1.clock = Some(1.0);
        let h1 = builder_of(&c1).hit_windows();
        if !c.custom[0].map_or(false, |(_, f)| f) && !close(h.ar * rate, h1.ar) {
            fails.push(format!("AR window {} at clock rate {rate} is not {} / rate", h.ar, h1.ar));
        }
        if c.mode != 3 && !c.custom[1].map_or(false, |(_, f)| f) {
            for (x, y) in windows(&h).iter().zip(windows(&h1)) {
                if !close(x * rate, y) {
                    fails.push(format!("OD window {x} at clock rate {rate} is not {y} / rate"));
                    break;
                }
            }
        }
    }
    // HR never easier, EZ never harder than no mod (values in [0, 10])
    let in_range = (0..4).all(|i| {
        let v = c.custom[i].map_or(c.map[i], |(v, _)| v);
        (0.0..=10.0).contains(&v)
    }) && !has_da(c);
    if in_range {
        let with = |bits: u32| {
            let mut c2 = c.clone();
            c2.bits = (c.bits & !(HR | EZ)) | bits;
            builder_of(&c2).build()
        };
        let (hr, nm, ez) = (with(HR), with(0), with(EZ));
        for (name, f) in [
            ("ar", (|a: &BeatmapAttributes| a.ar) as fn(&BeatmapAttributes) -> f64),
            ("cs", |a| a.cs),
            ("hp", |a| a.hp),
        ] {
            if !(le(f(&nm), f(&hr)) && le(f(&ez), f(&nm))) {
                fails.push(format!("{name}: HR {} / NM {} / EZ {} are not ordered", f(&hr), f(&nm), f(&ez)));
            }
        }
        let (wh, wn, we) = (windows(&hr.hit_windows), windows(&nm.hit_windows), windows(&ez.hit_windows));
        for k in 0..wn.len() {
            if !(le(wh[k], wn[k]) && le(wn[k], we[k])) {
                fails.push(format!("hit window #{k}: HR {} / NM {} / EZ {} are not ordered", wh[k], wn[k], we[k]));
                break;
            }
        }
        if !(le(hr.hit_windows.ar, nm.hit_windows.ar) && le(nm.hit_windows.ar, ez.hit_windows.ar)) {
            fails.push("AR window: HR / NM / EZ are not ordered".to_string());
        }
    }
    fails
}

pub fn case_line(rng: &mut Rng) -> String {
    let c = gen_case(rng);
    let res = catch_unwind(AssertUnwindSafe(|| {
        let b = builder_of(&c);
        (attrs_json(&b.build()), hw_json(&b.hit_windows()), oracles(&c))
    }));
    let o = Obj::new().raw("case", case_json(&c));
    match res {
        Ok((a, h, fails)) => o
            .raw("build", a)
            .raw("hw", h)
            .raw("fails", arr(fails.iter().map(|s| crate::json::esc(s))))
            .done(),
        Err(e) => o.str("panic", &panic_msg(e)).done(),
    }
}

/// Difficulty attributes of real calculations vs the builder for the same map and settings.
pub fn calc_line(rng: &mut Rng, max_objects: usize) -> String {
    let gm = gen_any(
        rng,
        &GenOpts {
            max_objects,
            ..Default::default()
        },
    );
    let Ok(map) = Beatmap::from_bytes(gm.text.as_bytes()) else {
        return Obj::new().str("skip", "io").done();
    };
    let src_mode = map.mode as u8;
    let target = if src_mode == 0 && rng.chance(1, 2) {
        rng.below(3) as u8
    } else {
        src_mode
    };
    let st = gen_settings(rng, target);
    let d = st.difficulty();
    let Ok(conv) = map.convert_ref(mode_of(target), &d.clone().inspect().mods) else {
        return Obj::new().str("skip", "convert").done();
    };
    let res = catch_unwind(AssertUnwindSafe(|| {
        let want = conv.attributes().difficulty(&d).build();
        let mut fails = Vec::new();
        let mut cmp = |name: &str, got: f64, exp: f64| {
            if got.to_bits() != exp.to_bits() {
                fails.push(format!("{name}: difficulty attributes hold {got}, the builder gives {exp}"));
            }
        };
        // every route to difficulty attributes: the converted map, the original map through a
        // gradual calculator (its last value) and through Performance
        let mut routes = vec![("calculate(converted)", d.calculate(&conv))];
        if let Ok(g) = rosu_pp::GradualDifficulty::new_with_mode(d.clone(), &map, mode_of(target)) {
            if let Some(a) = g.last() {
                routes.push(("GradualDifficulty(original map).last()", a));
            }
        }
        if let Ok(p) = rosu_pp::Performance::new(&map)
            .difficulty(d.clone())
            .try_mode(mode_of(target))
        {
            routes.push((
                "Performance(original map).calculate().difficulty_attributes()",
                p.calculate().difficulty_attributes(),
            ));
        }
        if let Ok(mut g) = rosu_pp::GradualPerformance::new_with_mode(d.clone(), &map, mode_of(target)) {
            if let Some(a) = g.last(rosu_pp::any::ScoreState::new()) {
                routes.push((
                    "GradualPerformance(original map).last().difficulty_attributes()",
                    a.difficulty_attributes(),
                ));
            }
        }
        for (route, attrs) in routes {
        let mut cmp = |name: &str, got: f64, exp: f64| cmp(&format!("{route}: {name}"), got, exp);
        match attrs {
            rosu_pp::any::DifficultyAttributes::Osu(a) => {
                cmp("osu ar", a.ar, want.ar);
                cmp("osu hp", a.hp, want.hp);
                cmp("osu od", a.od(), want.od);
                cmp("osu great_hit_window", a.great_hit_window, want.hit_windows.od_great);
                cmp("osu ok_hit_window", a.ok_hit_window, want.hit_windows.od_ok.unwrap_or(0.0));
                cmp("osu meh_hit_window", a.meh_hit_window, want.hit_windows.od_meh.unwrap_or(0.0));
            }
            rosu_pp::any::DifficultyAttributes::Taiko(a) => {
                cmp("taiko great_hit_window", a.great_hit_window, want.hit_windows.od_great);
                cmp("taiko ok_hit_window", a.ok_hit_window, want.hit_windows.od_ok.unwrap_or(0.0));
            }
            rosu_pp::any::DifficultyAttributes::Catch(a) => {
                cmp("catch ar", a.ar, want.ar);
            }
            rosu_pp::any::DifficultyAttributes::Mania(_) => {}
        }
        }
        fails
    }));
    let o = Obj::new()
        .raw("mode", target)
        .raw("src_mode", src_mode)
        .raw("settings", st.json())
        .str("map", &gm.text);
    match res {
        Ok(fails) => o.raw("fails", arr(fails.iter().map(|s| crate::json::esc(s)))).done(),
        Err(e) => o.str("panic", &panic_msg(e)).done(),
    }
}

pub fn main(seed: u64, count: u64, calc_count: u64) {
    for k in 0..count {
        let mut rng = Rng::fork(seed ^ 0x6174_7472, k);
        let line = case_line(&mut rng);
        println!("{{\"id\":{k},\"kind\":\"builder\",{}", &line[1..]);
    }
    for k in 0..calc_count {
        let mut rng = Rng::fork(seed ^ 0x6361_6c63, k);
        let line = calc_line(&mut rng, 25);
        println!("{{\"id\":{k},\"kind\":\"calc\",{}", &line[1..]);
    }
}
