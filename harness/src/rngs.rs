//! The two pseudo random generators behind the mania conversion and the Random mods
//! (`util::random::osu`, `util::random::csharp`, re-exported by the verification hook): recorded
//! call sequences for the Coq models (Model/Prng.v), plus the range of every `next_int_range`.

use crate::json::{arr, Obj};
use crate::rng::Rng;
use rosu_pp::verif::{CsharpRandom, OsuRandom};
use std::panic::{catch_unwind, AssertUnwindSafe};

fn seed_of(rng: &mut Rng) -> i32 {
    match rng.below(8) {
        0 => 0,
        1 => i32::MIN,
        2 => i32::MAX,
        3 => -1,
        4 => 161_803_398,
        5 => rng.below(1000) as i32 - 500,
        _ => rng.below(1 << 32) as u32 as i32,
    }
}

fn bounds(rng: &mut Rng) -> (i32, i32) {
    match rng.below(6) {
        0 => {
            let lo = rng.below(19) as i32;
            (lo, lo)
        }
        1 => {
            let hi = rng.below(1 << 20) as i32 + 1;
            (rng.below(hi as u64) as i32, hi)
        }
        _ => {
            let hi = 1 + rng.below(18) as i32;
            (rng.below(hi as u64) as i32, hi)
        }
    }
}

pub fn main(seed: u64, count: u64) {
    for k in 0..count {
        let mut rng = Rng::fork(seed ^ 0x726e_6773, k);
        let s = seed_of(&mut rng);
        let n = 1 + rng.below(60) as usize;
        if k % 2 == 0 {
            let ops: Vec<(u8, i32, i32)> = (0..n)
                .map(|_| match rng.below(8) {
                    0 => (0, 0, 0),
                    1 => (1, 0, 0),
                    2 => (2, 0, 0),
                    3 | 4 => (4, 0, 0),
                    _ => {
                        let (lo, hi) = bounds(&mut rng);
                        (3, lo, hi)
                    }
                })
                .collect();
            let res = catch_unwind(AssertUnwindSafe(|| {
                let mut r = OsuRandom::new(s);
                ops.iter()
                    .map(|&(o, lo, hi)| match o {
                        0 => i64::from(r.gen_unsigned()),
                        1 => i64::from(r.next_int()),
                        2 => r.next_double().to_bits() as i64,
                        3 => i64::from(r.next_int_range(lo, hi)),
                        _ => i64::from(r.next_bool()),
                    })
                    .collect::<Vec<_>>()
            }));
            let o = Obj::new().raw("id", k).str("kind", "osu").raw("seed", s).raw(
                "ops",
                arr(ops.iter().map(|&(o, lo, hi)| format!("[{o},{lo},{hi}]"))),
            );
            println!(
                "{}",
                match res {
                    Ok(v) => o.raw("out", arr(v.iter())).done(),
                    Err(e) => o.str("panic", &crate::grad::panic_msg(e)).done(),
                }
            );
        } else {
            let ops: Vec<(u8, i32)> = (0..n)
                .map(|_| match rng.below(3) {
                    0 => (0, 0),
                    1 => (1, 2),
                    _ => (1, 1 + rng.below(20) as i32),
                })
                .collect();
            let res = catch_unwind(AssertUnwindSafe(|| {
                let mut r = CsharpRandom::new(s);
                ops.iter()
                    .map(|&(o, m)| if o == 0 { i64::from(r.next()) } else { i64::from(r.next_max(m)) })
                    .collect::<Vec<_>>()
            }));
            let o = Obj::new().raw("id", k).str("kind", "cs").raw("seed", s).raw(
                "ops",
                arr(ops.iter().map(|&(o, m)| format!("[{o},{m}]"))),
            );
            println!(
                "{}",
                match res {
                    Ok(v) => o.raw("out", arr(v.iter())).done(),
                    Err(e) => o.str("panic", &crate::grad::panic_msg(e)).done(),
                }
            );
        }
    }
}
