//! No panic, abort or hang (C05): every public calculation on decodable, unsuspicious maps
//! with bounded slider work.  Runs a range of cases and prints a `begin` line before and a
//! result line after each, so that the driver (tools/m_nop.py) can attribute a hang or an
//! abort of this process to the case in progress and resume after it.

use std::{
    io::Write,
    panic::{catch_unwind, AssertUnwindSafe},
    time::Instant,
};

use rosu_pp::{
    any::ScoreState,
    model::{hit_object::HitObjectKind, mode::GameMode},
    Beatmap, Difficulty, GradualDifficulty, GradualPerformance, Performance,
};

use crate::{
    dec::corrupt_pub,
    eqv::gen_spec,
    gen::{gen_any, shipped_text, GenOpts},
    gperf::gen_state,
    grad::{mode_of, panic_msg},
    json::{esc, Obj},
    rng::Rng,
    settings::gen_settings,
};

/// Predicted nested objects of all sliders (ticks per span x spans): the "bounded slider work".
fn slider_work(map: &Beatmap) -> f64 {
    let mut total = 0.0;
    for h in &map.hit_objects {
        if let HitObjectKind::Slider(s) = &h.kind {
            let dist = s.expected_dist.unwrap_or(0.0);
            let tick_dist = 100.0 * map.slider_multiplier / map.slider_tick_rate;
            total += (dist / tick_dist.max(1e-9) + 2.0) * (s.repeats as f64 + 1.0);
        }
    }
    total
}

fn within_domain(map: &Beatmap) -> Result<(), &'static str> {
    if map.check_suspicion().is_err() {
        return Err("suspicious");
    }
    if map.hit_objects.len() > 300 {
        return Err("too many objects");
    }
    for h in &map.hit_objects {
        if let HitObjectKind::Slider(s) = &h.kind {
            if s.repeats > 100 {
                return Err("slider repeats > 100");
            }
            if s.expected_dist.unwrap_or(0.0) > 20_000.0 {
                return Err("slider longer than 20000px");
            }
            if s.control_points.iter().any(|p| p.pos.x.abs() > 20_000.0 || p.pos.y.abs() > 20_000.0) {
                return Err("slider control point beyond 20000px");
            }
        }
    }
    if slider_work(map) > 200_000.0 {
        return Err("slider work above 200k nested objects");
    }
    Ok(())
}

fn gen_text(rng: &mut Rng, realistic: bool) -> (String, &'static str) {
    if realistic {
        let gm = gen_any(rng, &GenOpts { max_objects: 120, ..Default::default() });
        return (gm.text, gm.shape);
    }
    match rng.below(10) {
        0 | 1 => {
            let name = *rng.pick(&["2785319.osu", "1028484.osu", "2118524.osu", "1638954.osu"]);
            // a prefix of a shipped map, corrupted
            let text = shipped_text(name);
            let cut: String = text.lines().take(120 + rng.below(200) as usize).collect::<Vec<_>>().join("\n");
            (String::from_utf8_lossy(&corrupt_pub(rng, &cut)).to_string(), "corrupted-shipped")
        }
        2..=6 => {
            let gm = gen_any(rng, &GenOpts { max_objects: 80, bounded_sliders: false, ..Default::default() });
            (String::from_utf8_lossy(&corrupt_pub(rng, &gm.text)).to_string(), "corrupted-generated")
        }
        7 => {
            // a single long object close to the parser's time limit
            let mode = rng.below(4);
            let start = *rng.pick(&[2147483500i64, 2147480000, 2000000000, -2147483000, 16777216, 1073741824]);
            let end = start.saturating_add(*rng.pick(&[147, 1000, 50_000, 2_000_000])).min(2147483647);
            let obj = match rng.below(3) {
                0 => format!("256,192,{start},12,0,{end},0:0:0:0:"),
                1 => format!("256,192,{start},128,0,{end}:0:0:0:0:"),
                _ => format!("256,192,{start},2,0,L|300:192,1,{}", rng.below(20000)),
            };
            (
                format!("osu file format v14\n\n[General]\nMode: {mode}\n\n[TimingPoints]\n0,500,4,2,0,60,1,0\n\n[HitObjects]\n{obj}\n"),
                "extreme-times",
            )
        }
        _ => {
            let gm = gen_any(rng, &GenOpts { max_objects: 200, bounded_sliders: false, ..Default::default() });
            (gm.text, gm.shape)
        }
    }
}

fn states(rng: &mut Rng, n: u64) -> Vec<ScoreState> {
    let mut v = vec![ScoreState::new(), gen_state(rng, n), gen_state(rng, 3 * n + 5)];
    let mut big = ScoreState::new();
    big.n300 = (3 * n + 7) as u32;
    big.misses = (2 * n) as u32;
    big.max_combo = u32::MAX;
    big.osu_large_tick_hits = u32::MAX;
    v.push(big);
    v
}

fn exercise(map: &Beatmap, rng: &mut Rng) -> usize {
    let mut calls = 0;
    let _ = map.bpm();
    let _ = map.attributes().build();
    calls += 2;
    let targets: Vec<u8> = if map.mode == GameMode::Osu { vec![0, 1, 2, 3] } else { vec![map.mode as u8] };
    for t in targets {
        let mut st = gen_settings(rng, t);
        match rng.below(6) {
            0 => st.clock_rate = Some(0.01),
            1 => st.clock_rate = Some(100.0),
            _ => {}
        }
        // attribute overrides over the whole documented range [-20, 20] (Difficulty clamps there)
        if rng.chance(1, 3) {
            let mut wide = |rng: &mut Rng| -> Option<(f32, bool)> {
                if rng.chance(1, 2) {
                    let v = match rng.below(5) {
                        0 => 20.0,
                        1 => -20.0,
                        2 => (rng.f64_range(11.0, 20.0) * 10.0).round() / 10.0,
                        3 => (rng.f64_range(-20.0, 0.0) * 10.0).round() / 10.0,
                        _ => (rng.f64_range(-20.0, 20.0) * 100.0).round() / 100.0,
                    };
                    Some((v as f32, rng.chance(1, 2)))
                } else {
                    None
                }
            };
            st.ar = wide(rng).or(st.ar);
            st.cs = wide(rng).or(st.cs);
            st.hp = wide(rng).or(st.hp);
            st.od = wide(rng).or(st.od);
        }
        if (t == 1 || t == 3) && rng.chance(1, 3) {
            st.repr = 4;
            st.lazer_extra = rng.below(16) as u8;
        }
        if rng.chance(1, 3) {
            st.passed = Some(rng.below(map.hit_objects.len() as u64 + 3) as u32);
        }
        let d: Difficulty = st.difficulty();
        let mode = mode_of(t);
        let Ok(conv) = map.convert_ref(mode, &d.clone().inspect().mods) else { continue };
        let _ = conv.attributes().difficulty(&d).build();
        let _ = conv.attributes().difficulty(&d).hit_windows();
        let attrs = d.calculate(&conv);
        let _ = d.strains(&conv);
        calls += 4;
        let n = conv.hit_objects.len() as u64;
        for s in states(rng, n) {
            let _ = Performance::new(&*conv).difficulty(d.clone()).state(s.clone()).calculate();
            let _ = Performance::new(attrs.clone()).difficulty(d.clone()).state(s).calculate();
            calls += 2;
        }
        for _ in 0..3 {
            let spec = gen_spec(rng, n);
            let mut p = spec.apply(Performance::new(&*conv).difficulty(d.clone()));
            let _ = p.generate_state();
            let _ = p.calculate();
            calls += 2;
        }
        if n <= 120 {
            let mut st2 = st.clone();
            st2.passed = None;
            let d2 = st2.difficulty();
            if let Ok(mut g) = GradualDifficulty::new_with_mode(d2.clone(), map, mode) {
                let mut k = 0;
                while g.next().is_some() {
                    k += 1;
                    if k > 3 * n + 8 {
                        break;
                    }
                }
                calls += 1;
            }
            if let Ok(mut g) = GradualDifficulty::new_with_mode(d2.clone(), map, mode) {
                let _ = g.nth(rng.below(n + 2) as usize);
                let _ = g.nth(usize::MAX);
                let _ = g.next();
                calls += 1;
            }
            if let Ok(mut g) = GradualPerformance::new_with_mode(d2, map, mode) {
                let ss = states(rng, n);
                let _ = g.next(ss[0].clone());
                let _ = g.nth(ss[1].clone(), rng.below(n + 2) as usize);
                let _ = g.last(ss[3].clone());
                let _ = g.next(ss[2].clone());
                calls += 1;
            }
        }
    }
    calls
}

pub fn main(seed: u64, start: u64, count: u64, realistic: bool) {
    let out = std::io::stdout();
    for k in start..start + count {
        let mut rng = Rng::fork(seed ^ if realistic { 0x72_6561_6c } else { 0x61_6476 }, k);
        let (text, shape) = gen_text(&mut rng, realistic);
        {
            let mut o = out.lock();
            let _ = writeln!(o, "{{\"begin\":{k},\"shape\":{},\"map\":{}}}", esc(shape), esc(&text.chars().take(20000).collect::<String>()));
            let _ = o.flush();
        }
        let t0 = Instant::now();
        let res = catch_unwind(AssertUnwindSafe(|| {
            let map = match Beatmap::from_bytes(text.as_bytes()) {
                Ok(m) => m,
                Err(_) => return ("undecodable", 0),
            };
            if let Err(why) = within_domain(&map) {
                return (why, 0);
            }
            ("ok", exercise(&map, &mut rng))
        }));
        let ms = t0.elapsed().as_millis();
        let line = match res {
            Ok((status, calls)) => Obj::new().raw("id", k).str("status", status).raw("calls", calls).raw("ms", ms).done(),
            Err(e) => Obj::new().raw("id", k).str("status", "panic").str("panic", &panic_msg(e)).raw("ms", ms).done(),
        };
        let mut o = out.lock();
        let _ = writeln!(o, "{line}");
        let _ = o.flush();
    }
}

/// `BananaShower::new(start, end).n_bananas` on a grid incl. times near the parser limits.
pub fn banana_main(seed: u64, count: u64) {
    let mut rng = Rng::fork(seed ^ 0x62_616e, 0);
    let fixed: [(f64, f64); 8] = [
        (2147483500.0, 2147483647.0),
        (1000.0, 2000.0),
        (0.0, 0.0),
        (500.0, 400.0),
        (16777216.0, 16778216.0),
        (1073741824.0, 1073741924.0),
        (-2147483000.0, -2147482000.0),
        (1e12, 2e12),
    ];
    for k in 0..count {
        let (s, e) = if (k as usize) < fixed.len() {
            fixed[k as usize]
        } else {
            let base = match rng.below(6) {
                0 => 2147480000.0 + rng.below(3600) as f64,
                1 => 16777216.0 * (1 + rng.below(64)) as f64,
                2 => -(rng.below(100000) as f64),
                _ => rng.below(10_000_000) as f64 + (rng.below(10) as f64) / 10.0,
            };
            let dur = match rng.below(5) {
                0 => rng.below(101) as f64,
                1 => 100.0 + rng.below(10) as f64,
                _ => rng.below(60000) as f64 + 0.5,
            };
            (base, base + dur)
        };
        println!(
            "{{\"id\":{k},\"start\":{},\"end\":{},\"n\":{}}}",
            s.to_bits(),
            e.to_bits(),
            rosu_pp::verif::catch::n_bananas(s, e)
        );
    }
}
