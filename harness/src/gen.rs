//! G1: structured `.osu` text generator (all four modes, format versions 3-14) and
//! G2: mutations of the shipped maps.

use std::fmt::Write;

use crate::rng::Rng;

#[derive(Clone, Debug)]
pub struct GenMap {
    pub text: String,
    pub mode: u8,
    pub shape: &'static str,
    pub n_objects: usize,
}

#[derive(Clone, Copy, Debug, PartialEq)]
pub enum Shape {
    Empty,
    Tiny,        // 1-3 objects
    SpinnerFirst,
    SliderFirst,
    AllSpinners,
    Stacked,
    Dense,
    Sparse,      // gaps of 30 s - 20 min
    NegativeTimes,
    Mixed,
    Ties,        // equal start times / equal timing sections
    Buzz,        // small circles alternating between two x positions, the distance swept in steps
}

pub const SHAPES: &[Shape] = &[
    Shape::Empty,
    Shape::Tiny,
    Shape::Tiny,
    Shape::SpinnerFirst,
    Shape::SliderFirst,
    Shape::AllSpinners,
    Shape::Stacked,
    Shape::Dense,
    Shape::Sparse,
    Shape::NegativeTimes,
    Shape::Mixed,
    Shape::Buzz,
    Shape::Mixed,
    Shape::Mixed,
    Shape::Ties,
];

fn shape_name(s: Shape) -> &'static str {
    match s {
        Shape::Empty => "empty",
        Shape::Tiny => "tiny",
        Shape::SpinnerFirst => "spinner_first",
        Shape::SliderFirst => "slider_first",
        Shape::AllSpinners => "all_spinners",
        Shape::Stacked => "stacked",
        Shape::Dense => "dense",
        Shape::Sparse => "sparse",
        Shape::NegativeTimes => "negative_times",
        Shape::Mixed => "mixed",
        Shape::Ties => "ties",
        Shape::Buzz => "buzz",
    }
}

fn one_decimal(rng: &mut Rng, lo: f64, hi: f64) -> f64 {
    (rng.f64_range(lo, hi) * 10.0).round() / 10.0
}

pub struct GenOpts {
    pub mode: Option<u8>,
    pub max_objects: usize,
    pub shape: Option<Shape>,
    /// keep slider work small (few repeats, short lengths)
    pub bounded_sliders: bool,
}

impl Default for GenOpts {
    fn default() -> Self {
        Self {
            mode: None,
            max_objects: 60,
            shape: None,
            bounded_sliders: true,
        }
    }
}

pub fn gen_map(rng: &mut Rng, opts: &GenOpts) -> GenMap {
    let mode = opts.mode.unwrap_or_else(|| rng.below(4) as u8);
    let shape = opts.shape.unwrap_or_else(|| *rng.pick(SHAPES));
    let version = match rng.below(10) {
        0 => 3 + rng.below(5) as i32,  // < 8: old tick distance, old stacking below 6
        1 => 8 + rng.below(6) as i32,
        _ => 14,
    };

    let mut t = String::new();
    writeln!(t, "osu file format v{version}\n").unwrap();
    writeln!(t, "[General]").unwrap();
    if rng.chance(4, 5) {
        writeln!(t, "StackLeniency: {}", one_decimal(rng, 0.0, 1.0)).unwrap();
    }
    writeln!(t, "Mode: {mode}\n").unwrap();

    writeln!(t, "[Difficulty]").unwrap();
    let keys = if mode == 3 { 1 + rng.below(10) as u32 } else { 0 };
    let cs = if mode == 3 {
        // a key count is an integer in the editor, but any number decodes
        if rng.chance(1, 8) {
            f64::from(keys) + *rng.pick(&[0.5, 0.6, -0.4, 0.3, 0.5])
        } else {
            f64::from(keys)
        }
    } else if matches!(shape, Shape::Buzz) {
        one_decimal(rng, 5.6, 10.0)
    } else {
        one_decimal(rng, 0.0, 10.0)
    };
    writeln!(t, "HPDrainRate:{}", one_decimal(rng, 0.0, 10.0)).unwrap();
    writeln!(t, "CircleSize:{cs}").unwrap();
    writeln!(t, "OverallDifficulty:{}", one_decimal(rng, 0.0, 10.0)).unwrap();
    if version >= 8 || rng.chance(1, 2) {
        writeln!(t, "ApproachRate:{}", one_decimal(rng, 0.0, 10.0)).unwrap();
    }
    writeln!(t, "SliderMultiplier:{}", one_decimal(rng, 0.4, 3.6)).unwrap();
    writeln!(t, "SliderTickRate:{}\n", *rng.pick(&[0.5, 1.0, 1.0, 2.0, 3.0, 4.0])).unwrap();

    // object times first, so timing points can be placed around them
    let n = match shape {
        Shape::Empty => 0,
        Shape::Tiny => 1 + rng.below(3) as usize,
        Shape::AllSpinners => 1 + rng.below(4) as usize,
        _ => {
            let cap = opts.max_objects.max(4) as u64;
            match rng.below(6) {
                0 => 2 + rng.below(4) as usize,
                1..=3 => 4 + rng.below(cap.min(30)) as usize,
                _ => 4 + rng.below(cap) as usize,
            }
        }
    };

    let mut time: f64 = match shape {
        Shape::NegativeTimes => -(rng.below(5000) as f64),
        _ => rng.below(3000) as f64,
    };
    let base_gap = match shape {
        Shape::Buzz => 120 + rng.below(160),
        Shape::Dense => 20 + rng.below(60),
        Shape::Stacked => 80 + rng.below(200),
        _ => 100 + rng.below(500),
    } as f64;

    let first_time = time;
    let mut objs: Vec<String> = Vec::new();
    let mut last_end = time;

    // timing points
    let mut tps: Vec<String> = Vec::new();
    let beat_len = *rng.pick(&[300.0, 333.333333333333, 352.941176470588, 400.0, 461.538, 500.0, 600.0, 1000.0, 150.0]);
    let n_tp = 1 + rng.below(3) as usize;
    let n_inh = rng.below(4) as usize;

    let stacked_pos = (rng.below(512) as i32, rng.below(384) as i32);
    // where the previous straight one-span slider ended (stacking under / after slider ends)
    let mut last_slider_end: Option<(i32, i32)> = None;

    for i in 0..n {
        let gap = match shape {
            // beyond 4096 strain sections (27 min) now and then
            Shape::Sparse if rng.chance(1, 12) => 1_700_000.0 + rng.below(2_500_000) as f64,
            Shape::Sparse if rng.chance(1, 3) => 30_000.0 + rng.below(1_170_000) as f64,
            Shape::Buzz => base_gap,
            Shape::Ties if rng.chance(1, 3) => 0.0,
            Shape::Mixed if rng.chance(1, 15) => 5_000.0 + rng.below(60_000) as f64,
            _ => base_gap * *rng.pick(&[0.25, 0.5, 0.5, 1.0, 1.0, 1.0, 2.0, 4.0]),
        };
        if i > 0 {
            time = (time + gap).round();
            // mostly avoid overlapping the previous long object, sometimes overlap
            if time < last_end && !rng.chance(1, 8) {
                time = last_end + base_gap.round();
            }
        }

        let (x, y) = match shape {
            Shape::Buzz => {
                // distance swept from 30 to 92 px in steps of 2, six objects per step
                let dx = 30 + (stacked_pos.1 % 45) + ((i / 5) * 3 % 64) as i32;
                (stacked_pos.0.min(400) + if i % 2 == 0 { 0 } else { dx }, stacked_pos.1)
            }
            Shape::Stacked if last_slider_end.is_some() && rng.chance(1, 2) => last_slider_end.unwrap(),
            Shape::Stacked if rng.chance(3, 4) => stacked_pos,
            _ => (rng.below(513) as i32, rng.below(385) as i32),
        };
        let x = if mode == 3 {
            // column centre
            let col = rng.below(u64::from(keys.max(1))) as f64;
            ((col + 0.5) * 512.0 / f64::from(keys.max(1))).floor() as i32
        } else {
            x
        };

        let kind = match shape {
            Shape::Buzz => 0,
            Shape::AllSpinners => 2,
            Shape::SpinnerFirst if i == 0 => 2,
            Shape::SliderFirst if i == 0 => 1,
            _ => match (mode, rng.below(20)) {
                (3, 0..=10) => 0,
                (3, 11..=18) => 3,
                (3, _) => 1,
                (_, 0..=10) => 0,
                (_, 11..=17) => 1,
                (_, 18) => 2,
                // a hold note in a non-mania map (treated as a spinner / banana shower there)
                (_, 19) if rng.chance(1, 3) => 3,
                _ => 0,
            },
        };
        let new_combo = if rng.chance(1, 4) { 4 } else { 0 };
        let sound = *rng.pick(&[0u8, 0, 0, 2, 4, 8, 10, 12, 6, 14, 15]);
        // every fifth object count: long single-colour streaks (taiko: dons, then kats, 20 objects each),
        // mostly circles - the mono-streak extreme of the taiko stamina / colour skills
        let mono = mode != 3 && n >= 20 && n % 5 == 2;
        let sound = if mono { if (i / 20) % 2 == 0 { 0 } else { 8 } } else { sound };
        let kind = if mono && kind == 1 && i % 7 != 0 { 0 } else { kind };

        match kind {
            0 => {
                objs.push(format!("{x},{y},{time},{},{sound},0:0:0:0:", 1 | new_combo));
                last_end = time;
            }
            1 => {
                let ctype = *rng.pick(&["L", "L", "B", "P", "C"]);
                let npts = match ctype {
                    "P" => 2,
                    "L" => 1 + rng.below(2) as usize,
                    _ => 1 + rng.below(3) as usize,
                };
                // degenerate paths: every control point on the head, zero or missing length
                let degenerate = rng.chance(1, 15);
                let mut pts = String::new();
                for _ in 0..npts {
                    let dx = if degenerate { 0 } else { rng.range(-150, 150) as i32 };
                    let dy = if degenerate { 0 } else { rng.range(-120, 120) as i32 };
                    write!(pts, "|{}:{}", x + dx, y + dy).unwrap();
                }
                let repeats = if opts.bounded_sliders {
                    *rng.pick(&[1, 1, 1, 2, 2, 3, 4])
                } else {
                    1 + rng.below(100) as i32
                };
                let len = if opts.bounded_sliders {
                    one_decimal(rng, 10.0, 420.0)
                } else {
                    one_decimal(rng, 0.0, 20_000.0)
                };
                // a straight slider of exactly the length of its only segment ends on that point
                let straight = matches!(shape, Shape::Stacked) && rng.chance(1, 2);
                let (ctype, pts, repeats) = if straight {
                    let (ex, ey) = (x + 60, y);
                    last_slider_end = Some((ex, ey));
                    ("L", format!("|{ex}:{ey}"), 1)
                } else {
                    last_slider_end = None;
                    (ctype, pts, repeats)
                };
                let len = if straight { 60.0 } else { len };
                let len_str = if straight {
                    ",60".to_string()
                } else if degenerate {
                    (*rng.pick(&[",0", "", ",0.0", ",0"])).to_string()
                } else if rng.chance(1, 25) {
                    String::new() // missing length: use path length
                } else {
                    format!(",{len}")
                };
                objs.push(format!(
                    "{x},{y},{time},{},{sound},{ctype}{pts},{repeats}{len_str}",
                    2 | new_combo
                ));
                // rough end estimate for spacing purposes only
                last_end = time + len * f64::from(repeats) * 3.0;
            }
            2 => {
                let dur = *rng.pick(&[0.0, 50.0, 400.0, 1000.0, 3000.0, 7777.0]);
                let end = time + dur;
                objs.push(format!("256,192,{time},{},{sound},{end},0:0:0:0:", 8 | new_combo));
                last_end = end;
            }
            _ => {
                let dur = *rng.pick(&[0.0, 30.0, 99.0, 100.0, 101.0, 250.0, 1000.0, 4321.0]);
                let end = time + dur;
                objs.push(format!("{x},{y},{time},128,{sound},{end}:0:0:0:0:"));
                last_end = end;
            }
        }
    }

    // timing points spread over [first_time, time]
    let span = (time - first_time).max(1000.0);
    let mut tp_time = first_time - *rng.pick(&[0.0, 0.0, 10.0, 500.0]);
    for i in 0..n_tp {
        let bl = if shape == Shape::Ties {
            beat_len
        } else if i == 0 {
            beat_len
        } else {
            *rng.pick(&[beat_len, beat_len / 2.0, beat_len * 2.0, 375.0, 428.571])
        };
        let kiai = if rng.chance(1, 4) { 1 } else { 0 };
        if version >= 5 || rng.chance(1, 2) {
            tps.push(format!("{tp_time},{bl},4,2,0,60,1,{kiai}"));
        } else {
            tps.push(format!("{tp_time},{bl}"));
        }
        tp_time = if shape == Shape::Ties {
            // equal section durations: tie candidates for bpm()
            tp_time + (span / n_tp as f64).round()
        } else {
            (tp_time + rng.f64_range(0.0, span)).round()
        };
    }
    for _ in 0..n_inh {
        let at = (first_time + rng.f64_range(0.0, span)).round();
        let sv = *rng.pick(&[-50.0, -66.6666666666667, -100.0, -133.333333333333, -200.0, -400.0, -10.0, -1000.0]);
        let kiai = if rng.chance(1, 3) { 1 } else { 0 };
        tps.push(format!("{at},{sv},4,2,1,60,0,{kiai}"));
    }
    if !rng.chance(1, 6) {
        // keep file order sorted by time most of the time (stable: uninherited first on ties)
        tps.sort_by(|a, b| {
            let ta: f64 = a.split(',').next().unwrap().parse().unwrap();
            let tb: f64 = b.split(',').next().unwrap().parse().unwrap();
            ta.total_cmp(&tb)
        });
    }

    if rng.chance(1, 3) && n > 1 {
        writeln!(t, "[Events]").unwrap();
        let b0 = (first_time + span * 0.3).round();
        writeln!(t, "2,{b0},{}\n", b0 + 2000.0).unwrap();
    }

    writeln!(t, "[TimingPoints]").unwrap();
    if !(shape == Shape::Empty && rng.chance(1, 2)) {
        for tp in &tps {
            writeln!(t, "{tp}").unwrap();
        }
    }
    writeln!(t).unwrap();
    writeln!(t, "[HitObjects]").unwrap();
    // rarely out of order in the file (decoder sorts)
    if rng.chance(1, 12) && objs.len() > 2 {
        let i = rng.below(objs.len() as u64 - 1) as usize;
        objs.swap(i, i + 1);
    }
    for o in &objs {
        writeln!(t, "{o}").unwrap();
    }

    GenMap {
        text: t,
        mode,
        shape: shape_name(shape),
        n_objects: n,
    }
}

pub const SHIPPED: &[(&str, u8)] = &[
    ("2785319.osu", 0),
    ("1028484.osu", 1),
    ("2118524.osu", 2),
    ("1638954.osu", 3),
];

pub fn shipped_text(name: &str) -> String {
    let repo = std::env::var("VERIF_REPO").unwrap_or_else(|_| "/repo".to_string());
    std::fs::read_to_string(format!("{repo}/resources/{name}")).unwrap_or_default()
}

/// G2: a shipped map truncated to a prefix of its hit objects with light line mutations.
pub fn gen_mutated(rng: &mut Rng, max_objects: usize) -> GenMap {
    let (name, mode) = *rng.pick(SHIPPED);
    let text = shipped_text(name);
    let mut head: Vec<String> = Vec::new();
    let mut objs: Vec<String> = Vec::new();
    let mut in_objs = false;
    for line in text.lines() {
        if line.trim() == "[HitObjects]" {
            in_objs = true;
            head.push(line.to_string());
            continue;
        }
        if in_objs {
            if !line.trim().is_empty() {
                objs.push(line.to_string());
            }
        } else {
            head.push(line.to_string());
        }
    }
    let start = rng.below(objs.len().max(1) as u64) as usize;
    let n = 1 + rng.below(max_objects.max(1) as u64) as usize;
    let mut sel: Vec<String> = objs.iter().skip(start).take(n).cloned().collect();
    // mutations
    match rng.below(6) {
        0 if sel.len() > 1 => {
            let i = rng.below(sel.len() as u64) as usize;
            let dup = sel[i].clone();
            sel.insert(i, dup);
        }
        1 if sel.len() > 1 => {
            let i = rng.below(sel.len() as u64 - 1) as usize;
            sel.swap(i, i + 1);
        }
        2 if !sel.is_empty() => {
            let i = rng.below(sel.len() as u64) as usize;
            sel.remove(i);
        }
        _ => {}
    }
    let n_objects = sel.len();
    let mut t = head.join("\n");
    t.push('\n');
    for o in sel {
        t.push_str(&o);
        t.push('\n');
    }
    GenMap {
        text: t,
        mode,
        shape: "mutated_shipped",
        n_objects,
    }
}

/// Mixed stream: mostly structured maps, some mutated shipped maps.
pub fn gen_any(rng: &mut Rng, opts: &GenOpts) -> GenMap {
    if opts.mode.is_none() && opts.shape.is_none() && rng.chance(1, 5) {
        gen_mutated(rng, opts.max_objects)
    } else {
        gen_map(rng, opts)
    }
}
