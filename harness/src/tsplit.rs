//! The slider splitting of the osu! -> taiko conversion (src/taiko/convert.rs): the inputs the
//! arithmetic reads off the decoded map, and the objects the conversion produced — for the Coq
//! model Model/TaikoSplit.v (C19).

use std::panic::{catch_unwind, AssertUnwindSafe};

use rosu_pp::{
    model::{hit_object::HitObjectKind, mode::GameMode},
    Beatmap, Difficulty,
};

use crate::{
    gen::{gen_any, GenOpts},
    grad::panic_msg,
    json::{arr, Obj},
    rng::Rng,
};

/// Short sliders at several tempi / velocities / tick rates / format versions: the ones the
/// conversion splits into hits (their length stays below two beats).
fn focused(rng: &mut Rng) -> String {
    let version = *rng.pick(&[3, 5, 7, 8, 9, 12, 14]);
    let sm = *rng.pick(&["0.4", "1", "1.4", "1.7", "2.2", "3.6"]);
    let tr = *rng.pick(&["0.5", "1", "2", "3", "4", "8", "1.5"]);
    let beat = *rng.pick(&["300", "333.333333333333", "500", "250.5", "1000", "60", "6", "2000"]);
    let mut s = format!(
        "osu file format v{version}\n\n[General]\nMode: 0\n\n[Difficulty]\nHPDrainRate:5\nCircleSize:4\nOverallDifficulty:6\nApproachRate:8\nSliderMultiplier:{sm}\nSliderTickRate:{tr}\n\n[TimingPoints]\n0,{beat},4,2,0,60,1,0\n"
    );
    let n = 1 + rng.below(8);
    let mut t = 500 + rng.below(2000) as i64;
    let mut objs = String::new();
    for _ in 0..n {
        if rng.chance(1, 3) {
            let sv = *rng.pick(&["-100", "-50", "-200", "-25", "-1000", "-10", "-133.33"]);
            s.push_str(&format!("{t},{sv},4,2,0,60,0,{}\n", rng.below(2)));
        }
        match rng.below(6) {
            0 => objs.push_str(&format!("{},{},{t},1,{},0:0:0:0:\n", rng.below(512), rng.below(384), rng.below(16))),
            1 => objs.push_str(&format!("256,192,{t},12,0,{},0:0:0:0:\n", t + 200 + rng.below(2000) as i64)),
            _ => {
                let len = match rng.below(5) {
                    0 => format!("{}", 1 + rng.below(30)),
                    1 => format!("{}.{}", 20 + rng.below(200), rng.below(1000)),
                    2 => "0".to_string(),
                    _ => format!("{}", 10 + rng.below(400)),
                };
                let repeats = match rng.below(5) {
                    0 => 2 + rng.below(6),
                    1 => 1 + rng.below(40),
                    _ => 1,
                };
                let x = rng.below(400);
                let edge = if rng.chance(1, 2) {
                    let k = repeats + 1;
                    let e: Vec<String> = (0..k).map(|_| rng.below(16).to_string()).collect();
                    let a: Vec<String> = (0..k).map(|_| "0:0".to_string()).collect();
                    format!(",{},{}", e.join("|"), a.join("|"))
                } else {
                    String::new()
                };
                objs.push_str(&format!(
                    "{x},100,{t},2,{},L|{}:100,{repeats},{len}{edge}\n",
                    rng.below(16),
                    x + 50 + rng.below(100)
                ));
            }
        }
        t += match rng.below(4) {
            0 => 0,
            1 => rng.below(50) as i64,
            _ => 100 + rng.below(1500) as i64,
        };
    }
    s.push_str("\n[HitObjects]\n");
    s.push_str(&objs);
    s
}

pub fn case(rng: &mut Rng) -> String {
    let text = if rng.chance(2, 3) {
        focused(rng)
    } else {
        gen_any(rng, &GenOpts { mode: Some(0), max_objects: 14, ..Default::default() }).text
    };
    let Ok(map) = Beatmap::from_bytes(text.as_bytes()) else {
        return Obj::new().str("skip", "io").done();
    };
    if map.mode != GameMode::Osu || map.hit_objects.len() > 40 {
        return Obj::new().str("skip", "not a small osu map").done();
    }
    // the inputs, read off the decoded map with the documented meaning of the look-ups: the
    // difficulty point active at t is the last one at or before t; the timing point the last one at
    // or before t, else the first
    let objs: Vec<String> = map
        .hit_objects
        .iter()
        .map(|h| match &h.kind {
            HitObjectKind::Circle => format!("[0,{}]", h.start_time.to_bits()),
            HitObjectKind::Spinner(_) => format!("[2,{}]", h.start_time.to_bits()),
            HitObjectKind::Hold(_) => format!("[3,{}]", h.start_time.to_bits()),
            HitObjectKind::Slider(s) => {
                let sv = map
                    .difficulty_points
                    .iter()
                    .rev()
                    .find(|p| p.time <= h.start_time)
                    .map_or(1.0, |p| p.slider_velocity);
                let bl = map
                    .timing_points
                    .iter()
                    .rev()
                    .find(|p| p.time <= h.start_time)
                    .or(map.timing_points.first())
                    .map_or(rosu_pp::model::control_point::TimingPoint::DEFAULT_BEAT_LEN, |p| p.beat_len);
                format!(
                    "[1,{},{},{},{},{}]",
                    h.start_time.to_bits(),
                    s.expected_dist.map_or("null".to_string(), |d| d.to_bits().to_string()),
                    s.span_count(),
                    sv.to_bits(),
                    bl.to_bits()
                )
            }
        })
        .collect();
    let o = Obj::new()
        .raw("version", map.version)
        .raw("sm", map.slider_multiplier.to_bits())
        .raw("tr", map.slider_tick_rate.to_bits())
        .raw("objs", arr(objs))
        .str("map", &text);
    match catch_unwind(AssertUnwindSafe(|| {
        map.convert_ref(GameMode::Taiko, &Difficulty::new().inspect().mods)
            .map(|c| {
                c.hit_objects
                    .iter()
                    .map(|h| {
                        let k = match h.kind {
                            HitObjectKind::Circle => 0,
                            HitObjectKind::Slider(_) => 1,
                            HitObjectKind::Spinner(_) => 2,
                            HitObjectKind::Hold(_) => 3,
                        };
                        format!("[{k},{}]", h.start_time.to_bits())
                    })
                    .collect::<Vec<_>>()
            })
            .map_err(|e| format!("{e:?}"))
    })) {
        Ok(Ok(v)) => o.raw("conv", arr(v)).done(),
        Ok(Err(e)) => o.str("convert_error", &e).done(),
        Err(e) => o.str("panic", &panic_msg(e)).done(),
    }
}

pub fn main(seed: u64, count: u64) {
    for k in 0..count {
        let mut rng = Rng::fork(seed ^ 0x7473_706c, k);
        let line = case(&mut rng);
        println!("{{\"id\":{k},{}", &line[1..]);
    }
}
