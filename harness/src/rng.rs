//! Deterministic PRNG (splitmix64 seeding + xoshiro256**). Every random choice of the
//! harness derives from one `Rng` seeded by VERIF_SEED so disagreements replay exactly.

#[derive(Clone)]
pub struct Rng {
    s: [u64; 4],
}

fn splitmix(x: &mut u64) -> u64 {
    *x = x.wrapping_add(0x9E37_79B9_7F4A_7C15);
    let mut z = *x;
    z = (z ^ (z >> 30)).wrapping_mul(0xBF58_476D_1CE4_E5B9);
    z = (z ^ (z >> 27)).wrapping_mul(0x94D0_49BB_1331_11EB);
    z ^ (z >> 31)
}

impl Rng {
    pub fn new(seed: u64) -> Self {
        let mut x = seed;
        Self {
            s: [splitmix(&mut x), splitmix(&mut x), splitmix(&mut x), splitmix(&mut x)],
        }
    }

    /// Independent stream for case `k` of a run.
    pub fn fork(seed: u64, k: u64) -> Self {
        Self::new(seed ^ k.wrapping_mul(0xD6E8_FEB8_6659_FD93).rotate_left(17))
    }

    pub fn u64(&mut self) -> u64 {
        let r = self.s[1].wrapping_mul(5).rotate_left(7).wrapping_mul(9);
        let t = self.s[1] << 17;
        self.s[2] ^= self.s[0];
        self.s[3] ^= self.s[1];
        self.s[1] ^= self.s[2];
        self.s[0] ^= self.s[3];
        self.s[2] ^= t;
        self.s[3] = self.s[3].rotate_left(45);
        r
    }

    /// Uniform in `0..n` (n > 0).
    pub fn below(&mut self, n: u64) -> u64 {
        self.u64() % n
    }

    pub fn range(&mut self, lo: i64, hi: i64) -> i64 {
        lo + (self.below((hi - lo + 1) as u64) as i64)
    }

    pub fn chance(&mut self, num: u64, den: u64) -> bool {
        self.below(den) < num
    }

    pub fn f64_unit(&mut self) -> f64 {
        (self.u64() >> 11) as f64 / (1u64 << 53) as f64
    }

    pub fn f64_range(&mut self, lo: f64, hi: f64) -> f64 {
        lo + self.f64_unit() * (hi - lo)
    }

    pub fn pick<'a, T>(&mut self, xs: &'a [T]) -> &'a T {
        &xs[self.below(xs.len() as u64) as usize]
    }
}
