//! Direct equivalence oracles on the implementation (C04, C07, C08, C18): the same
//! calculation expressed in several ways must give bitwise equal results.
//!
//! Every case prints `{"id":..,"prop":..,"checks":n,"fails":[{"name":..,"a":..,"b":..}],...}`.

use std::panic::{catch_unwind, AssertUnwindSafe};

use rosu_mods::{
    generated_mods::*, GameMod, GameMods as GameModsLazer, GameModsIntermode,
};
use rosu_pp::{
    any::{DifficultyAttributes, HitResultPriority, PerformanceAttributes, ScoreState, Strains},
    catch::{Catch, CatchPerformance},
    mania::{Mania, ManiaPerformance},
    model::mode::{GameMode, IGameMode},
    osu::{Osu, OsuPerformance},
    taiko::{Taiko, TaikoPerformance},
    Beatmap, Difficulty, GradualDifficulty, Performance,
};

use crate::{
    canon::Canon,
    gen::{gen_any, GenOpts},
    gperf::gen_state,
    grad::{mode_of, panic_msg},
    json::{arr, esc, Obj},
    rng::Rng,
    settings::{gen_settings, Settings, KEYS},
};

pub struct Fails {
    pub checks: u64,
    pub fails: Vec<String>,
}

impl Fails {
    fn new() -> Self {
        Self {
            checks: 0,
            fails: Vec::new(),
        }
    }
    fn eq(&mut self, name: &str, a: &str, b: &str) {
        self.checks += 1;
        if a != b && self.fails.len() < 6 {
            self.fails.push(
                Obj::new()
                    .str("name", name)
                    .str("a", &a.chars().take(600).collect::<String>())
                    .str("b", &b.chars().take(600).collect::<String>())
                    .done(),
            );
        }
    }
    fn holds(&mut self, name: &str, ok: bool, detail: &str) {
        self.checks += 1;
        if !ok && self.fails.len() < 6 {
            self.fails
                .push(Obj::new().str("name", name).str("a", detail).str("b", "").done());
        }
    }
}

fn fnv(s: &str) -> u64 {
    let mut h: u64 = 0xcbf2_9ce4_8422_2325;
    for b in s.bytes() {
        h ^= u64::from(b);
        h = h.wrapping_mul(0x100_0000_01b3);
    }
    h
}

pub fn strains_sig(s: &Strains) -> String {
    format!("strains#{:016x}", fnv(&format!("{s:?}")))
}

/// Score specification: which builder calls to make.
#[derive(Clone, Debug, Default)]
pub struct Spec {
    pub acc: Option<f64>,
    pub combo: Option<u32>,
    pub misses: Option<u32>,
    pub n300: Option<u32>,
    pub n100: Option<u32>,
    pub n50: Option<u32>,
    pub n_geki: Option<u32>,
    pub n_katu: Option<u32>,
    pub large: Option<u32>,
    pub small: Option<u32>,
    pub ends: Option<u32>,
    pub worst: Option<bool>,
    pub state: Option<ScoreState>,
}

pub fn gen_spec(rng: &mut Rng, total: u64) -> Spec {
    let hi = total + 3;
    let mut s = Spec::default();
    let opt = |rng: &mut Rng, num: u64| -> Option<u32> {
        if rng.chance(num, 10) {
            Some(rng.below(hi) as u32)
        } else {
            None
        }
    };
    match rng.below(5) {
        0 => {}
        1 => s.state = Some(gen_state(rng, total)),
        _ => {
            if rng.chance(1, 2) {
                s.acc = Some((rng.f64_range(0.0, 100.0) * 100.0).round() / 100.0);
            }
            s.combo = opt(rng, 3);
            s.misses = opt(rng, 4);
            s.n300 = opt(rng, 3);
            s.n100 = opt(rng, 3);
            s.n50 = opt(rng, 3);
            s.n_geki = opt(rng, 2);
            s.n_katu = opt(rng, 2);
            s.large = opt(rng, 2);
            s.small = opt(rng, 2);
            s.ends = opt(rng, 2);
            if rng.chance(1, 3) {
                s.worst = Some(rng.chance(1, 2));
            }
        }
    }
    s
}

impl Spec {
    pub fn apply<'a>(&self, mut p: Performance<'a>) -> Performance<'a> {
        if let Some(st) = &self.state {
            p = p.state(st.clone());
        }
        if let Some(a) = self.acc {
            p = p.accuracy(a);
        }
        if let Some(v) = self.combo {
            p = p.combo(v);
        }
        if let Some(v) = self.misses {
            p = p.misses(v);
        }
        if let Some(v) = self.n300 {
            p = p.n300(v);
        }
        if let Some(v) = self.n100 {
            p = p.n100(v);
        }
        if let Some(v) = self.n50 {
            p = p.n50(v);
        }
        if let Some(v) = self.n_geki {
            p = p.n_geki(v);
        }
        if let Some(v) = self.n_katu {
            p = p.n_katu(v);
        }
        if let Some(v) = self.large {
            p = p.large_tick_hits(v);
        }
        if let Some(v) = self.small {
            p = p.small_tick_hits(v);
        }
        if let Some(v) = self.ends {
            p = p.slider_end_hits(v);
        }
        if let Some(w) = self.worst {
            p = p.hitresult_priority(if w {
                HitResultPriority::WorstCase
            } else {
                HitResultPriority::BestCase
            });
        }
        p
    }

    pub fn json(&self) -> String {
        fn o<T: ToString>(v: &Option<T>) -> String {
            v.as_ref().map_or("null".to_string(), T::to_string)
        }
        Obj::new()
            .raw("acc", self.acc.map_or("null".to_string(), |a| a.to_bits().to_string()))
            .raw("combo", o(&self.combo))
            .raw("misses", o(&self.misses))
            .raw("n300", o(&self.n300))
            .raw("n100", o(&self.n100))
            .raw("n50", o(&self.n50))
            .raw("n_geki", o(&self.n_geki))
            .raw("n_katu", o(&self.n_katu))
            .raw("large", o(&self.large))
            .raw("small", o(&self.small))
            .raw("ends", o(&self.ends))
            .raw("worst", o(&self.worst))
            .raw(
                "state",
                self.state
                    .as_ref()
                    .map_or("null".to_string(), crate::gperf::state_json),
            )
            .done()
    }
}

pub struct Ctx {
    pub text: String,
    pub shape: &'static str,
    pub map: Beatmap,
    pub conv: Beatmap,
    pub src_mode: u8,
    pub target: u8,
    pub st: Settings,
}

/// A decoded map, a target mode reachable from it and settings for that mode.
pub fn gen_ctx(rng: &mut Rng, max_objects: usize, with_passed: bool) -> Result<Ctx, String> {
    let gm = gen_any(
        rng,
        &GenOpts {
            max_objects,
            ..Default::default()
        },
    );
    let map = Beatmap::from_bytes(gm.text.as_bytes()).map_err(|e| e.to_string())?;
    let src_mode = map.mode as u8;
    let target = if src_mode == 0 && rng.chance(1, 2) {
        rng.below(4) as u8
    } else {
        src_mode
    };
    let mut st = gen_settings(rng, target);
    if with_passed && rng.chance(1, 3) {
        st.passed = Some(rng.below(map.hit_objects.len() as u64 + 3) as u32);
    }
    let conv = map
        .convert_ref(mode_of(target), &st.difficulty().inspect().mods)
        .map_err(|e| format!("{e:?}"))?
        .into_owned();
    Ok(Ctx {
        text: gm.text,
        shape: gm.shape,
        map,
        conv,
        src_mode,
        target,
        st,
    })
}

fn head(prop: &str, c: &Ctx) -> Obj {
    Obj::new()
        .str("prop", prop)
        .raw("mode", c.target)
        .raw("src_mode", c.src_mode)
        .str("shape", c.shape)
        .raw("n_objects", c.conv.hit_objects.len())
        .raw("settings", c.st.json())
        .str("map", &c.text)
}

fn finish(o: Obj, f: Fails) -> String {
    o.raw("checks", f.checks).raw("fails", arr(f.fails)).done()
}

fn guarded(o: Obj, body: impl FnOnce(&mut Fails)) -> String {
    let mut f = Fails::new();
    match catch_unwind(AssertUnwindSafe(|| body(&mut f))) {
        Ok(()) => finish(o, f),
        Err(e) => finish(o.str("panic", &panic_msg(e)), f),
    }
}

// ------------------------------------------------------------------------------ C04

fn mode_perf_from_map<'a>(mode: u8, map: &'a Beatmap) -> Performance<'a> {
    match mode {
        0 => Performance::Osu(OsuPerformance::new(map)),
        1 => Performance::Taiko(TaikoPerformance::new(map)),
        2 => Performance::Catch(CatchPerformance::new(map)),
        _ => Performance::Mania(ManiaPerformance::new(map)),
    }
}

fn mode_perf_from_attrs<'a>(a: &DifficultyAttributes) -> Performance<'a> {
    match a.clone() {
        DifficultyAttributes::Osu(a) => Performance::Osu(OsuPerformance::new(a)),
        DifficultyAttributes::Taiko(a) => Performance::Taiko(TaikoPerformance::new(a)),
        DifficultyAttributes::Catch(a) => Performance::Catch(CatchPerformance::new(a)),
        DifficultyAttributes::Mania(a) => Performance::Mania(ManiaPerformance::new(a)),
    }
}

fn mode_perf_from_perf_attrs<'a>(a: &PerformanceAttributes) -> Performance<'a> {
    match a.clone() {
        PerformanceAttributes::Osu(a) => Performance::Osu(OsuPerformance::new(a)),
        PerformanceAttributes::Taiko(a) => Performance::Taiko(TaikoPerformance::new(a)),
        PerformanceAttributes::Catch(a) => Performance::Catch(CatchPerformance::new(a)),
        PerformanceAttributes::Mania(a) => Performance::Mania(ManiaPerformance::new(a)),
    }
}

fn diff_json(a: &DifficultyAttributes) -> String {
    a.json()
}

fn embedded(a: &PerformanceAttributes) -> DifficultyAttributes {
    a.difficulty_attributes()
}

/// The settings applied through the mode-agnostic builder's own setters (not through a Difficulty).
fn settings_on_perf<'a>(st: &Settings, mut p: Performance<'a>) -> Performance<'a> {
    p = match st.repr {
        0 => p.mods(st.bits),
        1 => p.mods(rosu_mods::GameModsLegacy::from_bits(st.bits)),
        2 => p.mods(st.intermode()),
        3 => p.mods(&st.intermode()),
        _ => p.mods(st.lazer_mods()),
    };
    if let Some(cr) = st.clock_rate {
        p = p.clock_rate(cr);
    }
    if let Some((v, f)) = st.ar {
        p = p.ar(v, f);
    }
    if let Some((v, f)) = st.cs {
        p = p.cs(v, f);
    }
    if let Some((v, f)) = st.hp {
        p = p.hp(v, f);
    }
    if let Some((v, f)) = st.od {
        p = p.od(v, f);
    }
    if let Some(b) = st.hardrock_offsets {
        p = p.hardrock_offsets(b);
    }
    if let Some(b) = st.lazer {
        p = p.lazer(b);
    }
    if let Some(n) = st.passed {
        p = p.passed_objects(n);
    }
    p
}

pub fn c04_case(rng: &mut Rng, max_objects: usize) -> String {
    let c = match gen_ctx(rng, max_objects, true) {
        Ok(c) => c,
        Err(e) => return Obj::new().str("skip", &e).done(),
    };
    let spec = gen_spec(rng, c.conv.hit_objects.len() as u64);
    let d = c.st.difficulty();
    let o = head("C04", &c).raw("spec", spec.json());
    guarded(o, |f| {
        // reference: from the (converted) map by reference
        let from_ref = spec
            .apply(Performance::new(&c.conv).difficulty(d.clone()))
            .calculate();
        let want = from_ref.json();
        let attrs = d.calculate(&c.conv);
        f.eq("embedded difficulty attributes == one-shot difficulty", &diff_json(&embedded(&from_ref)), &diff_json(&attrs));
        let run = |p: Performance<'_>| spec.apply(p.difficulty(d.clone())).calculate().json();
        f.eq("Performance::new(map by value)", &run(Performance::new(c.conv.clone())), &want);
        f.eq("Performance::new(difficulty attrs)", &run(Performance::new(attrs.clone())), &want);
        f.eq("Performance::new(performance attrs)", &run(Performance::new(from_ref.clone())), &want);
        f.eq("attrs.performance()", &run(attrs.clone().performance()), &want);
        f.eq("perf_attrs.performance()", &run(from_ref.clone().performance()), &want);
        f.eq("map.performance()", &run(c.conv.performance()), &want);
        f.eq("Mode::Performance::new(&map)", &run(mode_perf_from_map(c.target, &c.conv)), &want);
        f.eq("Mode::Performance::new(attrs)", &run(mode_perf_from_attrs(&attrs)), &want);
        f.eq("Mode::Performance::new(perf attrs)", &run(mode_perf_from_perf_attrs(&from_ref)), &want);
        // from the unconverted map through try_mode (mods first)
        if c.src_mode != c.target {
            if let Ok(p) = Performance::new(&c.map).difficulty(d.clone()).try_mode(mode_of(c.target)) {
                f.eq("Performance::new(&osu map).try_mode", &spec.apply(p).calculate().json(), &want);
            } else {
                f.holds("try_mode succeeds", false, "try_mode failed on a convertible map");
            }
        }
        // the settings given through the builder's own setters instead of a Difficulty: from the map
        // (difficulty is recomputed with them) and from attributes (computed with the same settings)
        f.eq("Performance::new(&map) + own setters", &spec.apply(settings_on_perf(&c.st, Performance::new(&c.conv))).calculate().json(), &want);
        f.eq("Performance::new(map by value) + own setters", &spec.apply(settings_on_perf(&c.st, Performance::new(c.conv.clone()))).calculate().json(), &want);
        f.eq("Performance::new(difficulty attrs) + own setters", &spec.apply(settings_on_perf(&c.st, Performance::new(attrs.clone()))).calculate().json(), &want);
        // the mode's own builder on the UNCONVERTED map, by reference and by value (the conversion is
        // implicit and must see the mods set afterwards, e.g. mania key mods)
        if c.src_mode != c.target {
            f.eq("Mode::Performance::new(&unconverted map)", &run(mode_perf_from_map(c.target, &c.map)), &want);
            let owned: Performance<'static> = match c.target {
                0 => Performance::Osu(OsuPerformance::new(c.map.clone())),
                1 => Performance::Taiko(TaikoPerformance::new(c.map.clone())),
                2 => Performance::Catch(CatchPerformance::new(c.map.clone())),
                _ => Performance::Mania(ManiaPerformance::new(c.map.clone())),
            };
            f.eq("Mode::Performance::new(unconverted map by value)", &run(owned), &want);
            let owned: Performance<'static> = match c.target {
                0 => Performance::Osu(OsuPerformance::from(c.map.clone())),
                1 => Performance::Taiko(TaikoPerformance::from(c.map.clone())),
                2 => Performance::Catch(CatchPerformance::from(c.map.clone())),
                _ => Performance::Mania(ManiaPerformance::from(c.map.clone())),
            };
            f.eq("Mode::Performance::from(unconverted map by value)", &run(owned), &want);
        }
        // generate_state then calculate on the same builder (the builder now holds attributes)
        let mut b = spec.apply(Performance::new(&c.conv).difficulty(d.clone()));
        let _ = b.generate_state();
        f.eq("calculate after generate_state", &b.calculate().json(), &want);
        // difficulty attributes of a result from attributes are those attributes
        let from_attrs = spec.apply(Performance::new(attrs.clone()).difficulty(d.clone())).calculate();
        f.eq("embedded attrs of the attrs path", &diff_json(&embedded(&from_attrs)), &diff_json(&attrs));
        // a complete, consistent state (as generate_state returns it) whose combo is impossible given
        // its misses: every entry point normalises it the same way
        for m in [1u32, 3] {
            let mut gs = Performance::new(&c.conv).difficulty(d.clone()).misses(m).generate_state();
            gs.max_combo = attrs.max_combo().saturating_add(5);
            let via_map = Performance::new(&c.conv).difficulty(d.clone()).state(gs.clone()).calculate().json();
            f.eq("complete state with an excessive combo: Performance::new(difficulty attrs) == from the map",
                 &Performance::new(attrs.clone()).difficulty(d.clone()).state(gs.clone()).calculate().json(), &via_map);
            f.eq("complete state with an excessive combo: Performance::new(performance attrs) == from the map",
                 &Performance::new(from_ref.clone()).difficulty(d.clone()).state(gs.clone()).calculate().json(), &via_map);
            f.eq("complete state with an excessive combo: Mode::Performance::new(attrs) == from the map",
                 &mode_perf_from_attrs(&attrs).difficulty(d.clone()).state(gs.clone()).calculate().json(), &via_map);
        }
        // the accessor methods of the attribute types say what the fields say
        use rosu_pp::any::{DifficultyAttributes as DA, PerformanceAttributes as PA};
        let (want_stars, want_combo, want_conv, want_objects): (f64, u32, bool, Option<u32>) = match &attrs {
            DA::Osu(a) => (a.stars, a.max_combo, false, Some(a.n_circles + a.n_sliders + a.n_spinners)),
            DA::Taiko(a) => (a.stars, a.max_combo, a.is_convert, None),
            DA::Catch(a) => (a.stars, a.n_fruits + a.n_droplets, a.is_convert, None),
            DA::Mania(a) => (a.stars, a.max_combo, a.is_convert, Some(a.n_objects)),
        };
        let (got_stars, got_combo, got_conv, got_objects) = match &attrs {
            DA::Osu(a) => (a.stars, a.max_combo(), false, Some(a.n_objects())),
            DA::Taiko(a) => (a.stars, a.max_combo(), a.is_convert(), None),
            DA::Catch(a) => (a.stars, a.max_combo(), a.is_convert(), None),
            DA::Mania(a) => (a.stars, a.max_combo(), a.is_convert(), Some(a.n_objects())),
        };
        f.holds("difficulty attribute accessors (stars / max_combo / is_convert / n_objects) == fields",
                got_stars.to_bits() == want_stars.to_bits() && got_combo == want_combo && got_conv == want_conv && got_objects == want_objects,
                &format!("{got_stars} {got_combo} {got_conv} {got_objects:?} vs {want_stars} {want_combo} {want_conv} {want_objects:?}"));
        f.holds("DifficultyAttributes::{stars, max_combo} == the mode's accessors",
                attrs.stars().to_bits() == want_stars.to_bits() && attrs.max_combo() == want_combo,
                &format!("{} {} vs {want_stars} {want_combo}", attrs.stars(), attrs.max_combo()));
        let (pp_f, p_stars, p_combo, p_inner_pp): (f64, f64, u32, f64) = match &from_ref {
            PA::Osu(p) => (p.pp, p.stars(), p.max_combo(), p.pp()),
            PA::Taiko(p) => (p.pp, p.stars(), p.max_combo(), p.pp()),
            PA::Catch(p) => (p.pp, p.stars(), p.max_combo(), p.pp()),
            PA::Mania(p) => (p.pp, p.stars(), p.max_combo(), p.pp()),
        };
        f.holds("performance attribute accessors (pp / stars / max_combo) == fields of the result and of its difficulty part",
                p_inner_pp.to_bits() == pp_f.to_bits() && from_ref.pp().to_bits() == pp_f.to_bits()
                    && p_stars.to_bits() == want_stars.to_bits() && from_ref.stars().to_bits() == want_stars.to_bits()
                    && p_combo == want_combo && from_ref.max_combo() == want_combo,
                &format!("pp {p_inner_pp}/{}/{pp_f} stars {p_stars}/{}/{want_stars} combo {p_combo}/{}/{want_combo}",
                         from_ref.pp(), from_ref.stars(), from_ref.max_combo()));
        f.eq("DifficultyAttributes::from(performance attributes) == embedded difficulty attributes",
             &diff_json(&DA::from(from_ref.clone())), &diff_json(&embedded(&from_ref)));
        // mode-specific attrs.performance() and Mode::performance(map)
        let via_mode_attrs = match attrs.clone() {
            DA::Osu(a) => spec.apply(Performance::Osu(a.performance()).difficulty(d.clone())).calculate().json(),
            DA::Taiko(a) => spec.apply(Performance::Taiko(a.performance()).difficulty(d.clone())).calculate().json(),
            DA::Catch(a) => spec.apply(Performance::Catch(a.performance()).difficulty(d.clone())).calculate().json(),
            DA::Mania(a) => spec.apply(Performance::Mania(a.performance()).difficulty(d.clone())).calculate().json(),
        };
        f.eq("mode attrs.performance()", &via_mode_attrs, &want);
        let via_mode_perf_attrs = match from_ref.clone() {
            PA::Osu(a) => spec.apply(Performance::Osu(a.performance()).difficulty(d.clone())).calculate().json(),
            PA::Taiko(a) => spec.apply(Performance::Taiko(a.performance()).difficulty(d.clone())).calculate().json(),
            PA::Catch(a) => spec.apply(Performance::Catch(a.performance()).difficulty(d.clone())).calculate().json(),
            PA::Mania(a) => spec.apply(Performance::Mania(a.performance()).difficulty(d.clone())).calculate().json(),
        };
        f.eq("mode perf_attrs.performance()", &via_mode_perf_attrs, &want);
        use rosu_pp::model::mode::IGameMode;
        let via_igm = match c.target {
            0 => spec.apply(Performance::Osu(Osu::performance(&c.conv)).difficulty(d.clone())).calculate().json(),
            1 => spec.apply(Performance::Taiko(Taiko::performance(&c.conv)).difficulty(d.clone())).calculate().json(),
            2 => spec.apply(Performance::Catch(Catch::performance(&c.conv)).difficulty(d.clone())).calculate().json(),
            _ => spec.apply(Performance::Mania(Mania::performance(&c.conv)).difficulty(d.clone())).calculate().json(),
        };
        f.eq("IGameMode::performance(map)", &via_igm, &want);
        // Mode::Performance::try_new
        let tn = match c.target {
            0 => rosu_pp::osu::OsuPerformance::try_new(&c.conv).map(|p| spec.apply(Performance::Osu(p).difficulty(d.clone())).calculate().json()),
            1 => rosu_pp::taiko::TaikoPerformance::try_new(&c.conv).map(|p| spec.apply(Performance::Taiko(p).difficulty(d.clone())).calculate().json()),
            2 => rosu_pp::catch::CatchPerformance::try_new(&c.conv).map(|p| spec.apply(Performance::Catch(p).difficulty(d.clone())).calculate().json()),
            _ => rosu_pp::mania::ManiaPerformance::try_new(&c.conv).map(|p| spec.apply(Performance::Mania(p).difficulty(d.clone())).calculate().json()),
        };
        f.eq("Mode::Performance::try_new(&map)", &tn.unwrap_or_else(|| "None".into()), &want);
        // ScoreState::total_hits agrees with the mode state's
        let gs = spec.apply(Performance::new(&c.conv).difficulty(d.clone())).generate_state();
        let th = gs.total_hits(mode_of(c.target));
        let th_mode = match c.target {
            0 => rosu_pp::osu::OsuScoreState::from(gs.clone()).total_hits(),
            1 => rosu_pp::taiko::TaikoScoreState::from(gs.clone()).total_hits(),
            2 => rosu_pp::catch::CatchScoreState::from(gs.clone()).total_hits(),
            _ => rosu_pp::mania::ManiaScoreState::from(gs.clone()).total_hits(),
        };
        f.holds("ScoreState::total_hits(mode) == the mode state's total_hits", th == th_mode, &format!("{th} vs {th_mode}"));
    })
}

// ------------------------------------------------------------------------------ C07

fn conversion_mods(rng: &mut Rng, target: u8) -> Settings {
    let mut st = gen_settings(rng, target);
    if target == 3 && rng.chance(1, 2) {
        st.bits |= *rng.pick(&KEYS);
    }
    st
}

fn map_sig(m: &Beatmap) -> String {
    format!(
        "map#{:016x} mode={:?} convert={} objects={}",
        fnv(&format!("{m:?}")),
        m.mode,
        m.is_convert,
        m.hit_objects.len()
    )
}

fn grad_all(mut g: GradualDifficulty, cap: usize) -> String {
    // no collect(): a wrong size_hint (taiko finding F6) must not abort the harness
    let mut v = Vec::new();
    while let Some(a) = g.next() {
        v.push(a.json());
        if v.len() > cap + 8 {
            break;
        }
    }
    arr(v)
}

pub fn c07_case(rng: &mut Rng, max_objects: usize) -> String {
    let gm = gen_any(
        rng,
        &GenOpts {
            max_objects,
            ..Default::default()
        },
    );
    let Ok(native) = Beatmap::from_bytes(gm.text.as_bytes()) else {
        return Obj::new().str("skip", "io").done();
    };
    let target = rng.below(4) as u8;
    let st = conversion_mods(rng, target);
    let d = st.difficulty();
    let mods = d.clone().inspect().mods;
    // sometimes start from an already converted map
    let pre = if native.mode == GameMode::Osu && rng.chance(1, 4) {
        let first = mode_of(1 + rng.below(3) as u8);
        native.clone().convert(first, &mods).ok()
    } else {
        None
    };
    let start = pre.clone().unwrap_or_else(|| native.clone());
    let o = Obj::new()
        .str("prop", "C07")
        .raw("mode", target)
        .raw("src_mode", start.mode as u8)
        .raw("src_is_convert", start.is_convert)
        .str("shape", gm.shape)
        .raw("n_objects", start.hit_objects.len())
        .raw("settings", st.json())
        .str("map", &gm.text);
    guarded(o, |f| {
        let tm = mode_of(target);
        let by_ref = start.convert_ref(tm, &mods).map(|c| c.into_owned());
        let by_val = start.clone().convert(tm, &mods);
        let mut m = start.clone();
        let by_mut = m.convert_mut(tm, &mods).map(|()| m.clone());
        let sig = |r: &Result<Beatmap, rosu_pp::model::mode::ConvertError>| match r {
            Ok(m) => map_sig(m),
            Err(e) => format!("Err({e:?})"),
        };
        f.eq("convert (by value) == convert_ref", &sig(&by_val), &sig(&by_ref));
        f.eq("convert_mut == convert_ref", &sig(&by_mut), &sig(&by_ref));
        if by_mut.is_err() {
            f.eq("convert_mut leaves the map untouched on error", &map_sig(&m), &map_sig(&start));
        }
        // the specification
        let expect = if start.mode == tm {
            "identity"
        } else if start.is_convert {
            "Err(AlreadyConverted)"
        } else if start.mode != GameMode::Osu {
            "Err(Convert)"
        } else {
            "converted"
        };
        match (&by_ref, expect) {
            (Ok(c), "identity") => f.eq("own mode is the identity", &map_sig(c), &map_sig(&start)),
            (Ok(c), "converted") => f.holds(
                "converted map is flagged and has the target mode",
                c.is_convert && c.mode == tm,
                &map_sig(c),
            ),
            (Err(e), ex) => f.holds(
                "conversion error as specified",
                ex.starts_with("Err") && format!("Err({e:?})").starts_with(&ex[..ex.len() - 1]),
                &format!("got Err({e:?}), expected {ex}"),
            ),
            (Ok(c), ex) => f.holds("conversion must fail", false, &format!("got {} expected {ex}", map_sig(c))),
        }
        // calculating for the target mode directly == calculating on the explicitly converted map
        let Ok(explicit) = by_ref else {
            let direct = match target {
                0 => d.calculate_for_mode::<Osu>(&start).err().map(|e| format!("{e:?}")),
                1 => d.calculate_for_mode::<Taiko>(&start).err().map(|e| format!("{e:?}")),
                2 => d.calculate_for_mode::<Catch>(&start).err().map(|e| format!("{e:?}")),
                _ => d.calculate_for_mode::<Mania>(&start).err().map(|e| format!("{e:?}")),
            };
            f.holds("direct calculation fails like the conversion", direct.is_some(), "calculate_for_mode succeeded");
            let tm_res = Performance::new(&start).difficulty(d.clone()).try_mode(tm);
            f.holds("try_mode fails like the conversion", tm_res.is_err(), "try_mode succeeded");
            return;
        };
        fn direct<M: IGameMode>(d: &Difficulty, m: &Beatmap) -> (String, String)
        where
            M::DifficultyAttributes: Canon,
            M::Strains: std::fmt::Debug,
        {
            (
                d.calculate_for_mode::<M>(m).map_or("err".into(), |a| a.json()),
                d.strains_for_mode::<M>(m)
                    .map_or("err".into(), |s| format!("strains#{:016x}", fnv(&format!("{s:?}")))),
            )
        }
        let (a1, s1, a2, s2) = match target {
            0 => {
                let (a, s) = direct::<Osu>(&d, &start);
                let (b, t) = direct::<Osu>(&d, &explicit);
                (a, s, b, t)
            }
            1 => {
                let (a, s) = direct::<Taiko>(&d, &start);
                let (b, t) = direct::<Taiko>(&d, &explicit);
                (a, s, b, t)
            }
            2 => {
                let (a, s) = direct::<Catch>(&d, &start);
                let (b, t) = direct::<Catch>(&d, &explicit);
                (a, s, b, t)
            }
            _ => {
                let (a, s) = direct::<Mania>(&d, &start);
                let (b, t) = direct::<Mania>(&d, &explicit);
                (a, s, b, t)
            }
        };
        f.eq("calculate_for_mode(map) == calculate_for_mode(converted)", &a1, &a2);
        f.eq("strains_for_mode(map) == strains_for_mode(converted)", &s1, &s2);
        let generic = d.calculate(&explicit);
        let generic_inner = match &generic {
            DifficultyAttributes::Osu(a) => a.json(),
            DifficultyAttributes::Taiko(a) => a.json(),
            DifficultyAttributes::Catch(a) => a.json(),
            DifficultyAttributes::Mania(a) => a.json(),
        };
        f.eq("calculate_for_mode(map) == calculate(converted)", &a1, &generic_inner);
        let generic_strains = match d.strains(&explicit) {
            Strains::Osu(s) => format!("strains#{:016x}", fnv(&format!("{s:?}"))),
            Strains::Taiko(s) => format!("strains#{:016x}", fnv(&format!("{s:?}"))),
            Strains::Catch(s) => format!("strains#{:016x}", fnv(&format!("{s:?}"))),
            Strains::Mania(s) => format!("strains#{:016x}", fnv(&format!("{s:?}"))),
        };
        f.eq("strains_for_mode(map) == strains(converted)", &s1, &generic_strains);
        if start.hit_objects.len() <= 40 {
            let cap = explicit.hit_objects.len() * 3 + 8;
            let g1 = GradualDifficulty::new_with_mode(d.clone(), &start, tm).map(|g| grad_all(g, cap));
            let g2 = GradualDifficulty::new(d.clone(), &explicit);
            f.eq(
                "GradualDifficulty::new_with_mode(map) == GradualDifficulty::new(converted)",
                &g1.unwrap_or_else(|e| format!("Err({e:?})")),
                &grad_all(g2, cap),
            );
        }
        if start.hit_objects.len() <= 40 && d.clone().inspect().passed_objects.is_none() {
            // the last value of the direct gradual route == the one-shot calculation on the
            // explicitly converted map (the two routes share no constructor)
            if let Ok(g) = GradualDifficulty::new_with_mode(d.clone(), &start, tm) {
                if let Some(last) = g.last() {
                    f.eq(
                        "GradualDifficulty::new_with_mode(map).last() == calculate(converted)",
                        &last.json(),
                        &d.calculate(&explicit).json(),
                    );
                }
            }
        }
        if explicit.hit_objects.len() <= 40 {
            // the thin public wrappers around the gradual constructors
            let cap = explicit.hit_objects.len() * 3 + 8;
            let reference = grad_all(GradualDifficulty::new(d.clone(), &explicit), cap);
            f.eq("Difficulty::gradual_difficulty(map) == GradualDifficulty::new",
                 &grad_all(d.clone().gradual_difficulty(&explicit), cap), &reference);
            f.eq("Beatmap::gradual_difficulty(difficulty) == GradualDifficulty::new",
                 &grad_all(explicit.gradual_difficulty(d.clone()), cap), &reference);
            fn first_vals<I: Iterator>(mut it: I, k: usize, j: impl Fn(&I::Item) -> String) -> String {
                let mut v = Vec::new();
                while v.len() < k {
                    match it.next() {
                        Some(a) => v.push(j(&a)),
                        None => break,
                    }
                }
                arr(v)
            }
            let ref6 = first_vals(GradualDifficulty::new(d.clone(), &explicit), 6, |a| a.json());
            let for_mode = match target {
                0 => d.clone().gradual_difficulty_for_mode::<Osu>(&start).map(|g| first_vals(g, 6, |a| a.json())),
                1 => d.clone().gradual_difficulty_for_mode::<Taiko>(&start).map(|g| first_vals(g, 6, |a| a.json())),
                2 => d.clone().gradual_difficulty_for_mode::<Catch>(&start).map(|g| first_vals(g, 6, |a| a.json())),
                _ => d.clone().gradual_difficulty_for_mode::<Mania>(&start).map(|g| first_vals(g, 6, |a| a.json())),
            };
            let generic6 = first_vals(GradualDifficulty::new(d.clone(), &explicit), 6, |a| match a {
                DifficultyAttributes::Osu(a) => a.json(),
                DifficultyAttributes::Taiko(a) => a.json(),
                DifficultyAttributes::Catch(a) => a.json(),
                DifficultyAttributes::Mania(a) => a.json(),
            });
            let _ = ref6;
            f.eq("Difficulty::gradual_difficulty_for_mode(map) == GradualDifficulty::new(converted)",
                 &for_mode.unwrap_or_else(|e| format!("Err({e:?})")), &generic6);
            // gradual performance wrappers: the first values for an empty-ish state sequence
            let st = rosu_pp::any::ScoreState::new();
            let perf_first = |mut g: rosu_pp::GradualPerformance| -> String {
                let mut v = Vec::new();
                for _ in 0..4 {
                    match g.next(st.clone()) {
                        Some(a) => v.push(a.json()),
                        None => break,
                    }
                }
                arr(v)
            };
            let pref = perf_first(rosu_pp::GradualPerformance::new(d.clone(), &explicit));
            f.eq("Difficulty::gradual_performance(map) == GradualPerformance::new",
                 &perf_first(d.clone().gradual_performance(&explicit)), &pref);
            f.eq("Beatmap::gradual_performance(difficulty) == GradualPerformance::new",
                 &perf_first(explicit.gradual_performance(d.clone())), &pref);
        }
        // attribute builder conveniences
        {
            let a = explicit.attributes().difficulty(&d).build();
            let b = rosu_pp::model::beatmap::BeatmapAttributesBuilder::from(&explicit).difficulty(&d).build();
            f.eq("BeatmapAttributesBuilder::from(&map) == map.attributes()", &format!("{b:?}"), &format!("{a:?}"));
            let c = rosu_pp::model::beatmap::BeatmapAttributesBuilder::new()
                .ar(explicit.ar, false).cs(explicit.cs, false).hp(explicit.hp, false).od(explicit.od, false)
                .mode(explicit.mode, explicit.is_convert).difficulty(&d).build();
            f.eq("BeatmapAttributesBuilder with the map's fields set one by one == map.attributes()", &format!("{c:?}"), &format!("{a:?}"));
            f.holds("check_suspicion accepts a generated map or names a reason",
                    matches!(explicit.check_suspicion(), Ok(()) | Err(_)), "unreachable");
        }
        let spec = gen_spec(rng, explicit.hit_objects.len() as u64);
        let want = spec
            .apply(Performance::new(&explicit).difficulty(d.clone()))
            .calculate()
            .json();
        match Performance::new(&start).difficulty(d.clone()).try_mode(tm) {
            Ok(p) => f.eq("try_mode(map) == Performance(converted)", &spec.apply(p).calculate().json(), &want),
            Err(_) => f.holds("try_mode succeeds", false, "try_mode failed although conversion works"),
        }
        let p = Performance::new(&start).difficulty(d.clone()).mode_or_ignore(tm);
        f.eq("mode_or_ignore(map) == Performance(converted)", &spec.apply(p).calculate().json(), &want);
        let p = Performance::new(start.clone()).difficulty(d.clone()).mode_or_ignore(tm);
        f.eq("mode_or_ignore(owned map) == Performance(converted)", &spec.apply(p).calculate().json(), &want);
        // the score specification given BEFORE the mode switch is carried over: the setters every
        // mode shares (accuracy, combo, misses, n300/n100/n50, tick counts, priority) commute with it
        let mut common = spec.clone();
        common.n_geki = None;
        common.n_katu = None;
        common.state = None;
        // make the carried-over fields matter: a non-default priority and an accuracy target
        if rng.chance(1, 2) {
            common.worst = Some(true);
        }
        if common.acc.is_none() && rng.chance(1, 2) {
            common.acc = Some((rng.f64_range(50.0, 100.0) * 100.0).round() / 100.0);
        }
        let want_c = common
            .apply(Performance::new(&explicit).difficulty(d.clone()))
            .calculate()
            .json();
        let p = common.apply(Performance::new(&start).difficulty(d.clone())).mode_or_ignore(tm);
        f.eq("score setters before mode_or_ignore == after the conversion", &p.calculate().json(), &want_c);
        if let Ok(p) = common.apply(Performance::new(&start).difficulty(d.clone())).try_mode(tm) {
            f.eq("score setters before try_mode == after the conversion", &p.calculate().json(), &want_c);
        }
        // the conversion happens at the mode switch, with the mods of that moment: changing the mods
        // afterwards does not convert again, whether the map was borrowed or owned
        let m2 = *rng.pick(&crate::settings::KEYS) | *rng.pick(&[0u32, 64, 16]);
        let want_m = common
            .apply(Performance::new(&explicit).difficulty(d.clone()).mods(m2))
            .calculate()
            .json();
        let p = common.apply(Performance::new(&start).difficulty(d.clone()).mode_or_ignore(tm).mods(m2));
        f.eq("mods changed after mode_or_ignore (borrowed map) == Performance(converted).mods", &p.calculate().json(), &want_m);
        let p = common.apply(Performance::new(start.clone()).difficulty(d.clone()).mode_or_ignore(tm).mods(m2));
        f.eq("mods changed after mode_or_ignore (owned map) == Performance(converted).mods", &p.calculate().json(), &want_m);
    })
}

// ------------------------------------------------------------------------------ C08

fn all_results(d: &Difficulty, map: &Beatmap, spec: &Spec) -> String {
    let a = d.calculate(map);
    let s = d.strains(map);
    let p = spec.apply(Performance::new(map).difficulty(d.clone())).calculate();
    format!("{{\"d\":{},\"s\":\"{}\",\"p\":{}}}", a.json(), strains_sig(&s), p.json())
}

fn lazer_rate_mod(mode: u8, which: u8, r: Option<f64>) -> GameMod {
    macro_rules! mk {
        ($dt:ident, $ht:ident, $nc:ident, $dc:ident) => {
            match which {
                0 => GameMod::$dt($dt {
                    speed_change: r,
                    ..Default::default()
                }),
                1 => GameMod::$ht($ht {
                    speed_change: r,
                    ..Default::default()
                }),
                2 => GameMod::$nc($nc { speed_change: r }),
                _ => GameMod::$dc($dc { speed_change: r }),
            }
        };
    }
    match mode {
        0 => mk!(DoubleTimeOsu, HalfTimeOsu, NightcoreOsu, DaycoreOsu),
        1 => mk!(DoubleTimeTaiko, HalfTimeTaiko, NightcoreTaiko, DaycoreTaiko),
        2 => mk!(DoubleTimeCatch, HalfTimeCatch, NightcoreCatch, DaycoreCatch),
        _ => mk!(DoubleTimeMania, HalfTimeMania, NightcoreMania, DaycoreMania),
    }
}

fn lazer_da(mode: u8, ar: Option<f64>, cs: Option<f64>, hp: Option<f64>, od: Option<f64>) -> GameMod {
    match mode {
        0 => GameMod::DifficultyAdjustOsu(DifficultyAdjustOsu {
            circle_size: cs,
            approach_rate: ar,
            drain_rate: hp,
            overall_difficulty: od,
            ..Default::default()
        }),
        1 => GameMod::DifficultyAdjustTaiko(DifficultyAdjustTaiko {
            drain_rate: hp,
            overall_difficulty: od,
            ..Default::default()
        }),
        2 => GameMod::DifficultyAdjustCatch(DifficultyAdjustCatch {
            circle_size: cs,
            approach_rate: ar,
            drain_rate: hp,
            overall_difficulty: od,
            ..Default::default()
        }),
        _ => GameMod::DifficultyAdjustMania(DifficultyAdjustMania {
            drain_rate: hp,
            overall_difficulty: od,
            ..Default::default()
        }),
    }
}

pub fn c08_case(rng: &mut Rng, max_objects: usize) -> String {
    let mut c = match gen_ctx(rng, max_objects, true) {
        Ok(c) => c,
        Err(e) => return Obj::new().str("skip", &e).done(),
    };
    // legacy-representable only, default settings
    c.st.lazer_extra = 0;
    c.st.repr = 0;
    let spec = gen_spec(rng, c.conv.hit_objects.len() as u64);
    let which = rng.below(4) as u8;
    let rate = (rng.f64_range(0.5, 2.0) * 100.0).round() / 100.0;
    let (ar, cs, hp, od) = (
        // every third AR above 10: the approach time then drops below its lower anchor (450 ms)
        if rng.chance(1, 2) {
            Some((if rng.chance(1, 3) { rng.f64_range(10.1, 11.0) } else { rng.f64_range(0.0, 11.0) } * 10.0).round() / 10.0)
        } else {
            None
        },
        if rng.chance(1, 2) { Some((rng.f64_range(0.0, 11.0) * 10.0).round() / 10.0) } else { None },
        if rng.chance(1, 2) { Some((rng.f64_range(0.0, 11.0) * 10.0).round() / 10.0) } else { None },
        if rng.chance(1, 2) { Some((rng.f64_range(0.0, 11.0) * 10.0).round() / 10.0) } else { None },
    );
    let o = head("C08", &c)
        .raw("spec", spec.json())
        .raw("rate_mod", which)
        .raw("rate", rate.to_bits())
        .raw(
            "da",
            arr([ar, cs, hp, od].iter().map(|v| v.map_or("null".to_string(), |x| x.to_bits().to_string()))),
        );
    guarded(o, |f| {
        // 1. five representations of the same legacy-representable selection
        let names = ["u32 bits", "GameModsLegacy", "GameModsIntermode (owned)", "&GameModsIntermode", "lazer GameMods (default settings)"];
        let mut first = None;
        for (repr, name) in names.iter().enumerate() {
            let mut st = c.st.clone();
            st.repr = repr as u8;
            let r = all_results(&st.difficulty(), &c.conv, &spec);
            match &first {
                None => first = Some(r),
                Some(w) => f.eq(&format!("{name} == u32 bits"), &r, w),
            }
        }
        // 1b. selections with mods that have no legacy bit (Classic; Blinds / Traceable for osu!) next to
        // legacy-bit mods: owned intermode, intermode by reference and lazer mods (default settings)
        {
            let mut st = c.st.clone();
            st.lazer_extra = 8 | if c.target == 0 { [0u8, 16, 32, 48][(c.st.bits as usize / 8) % 4] } else { 0 };
            st.lazer = None;
            let mut first = None;
            for (repr, name) in [(2u8, "GameModsIntermode (owned)"), (3, "&GameModsIntermode"), (4, "lazer GameMods")] {
                st.repr = repr;
                let r = all_results(&st.difficulty(), &c.conv, &spec);
                match &first {
                    None => first = Some(r),
                    Some(w) => f.eq(&format!("with Classic (and other non-legacy mods): {name} == GameModsIntermode (owned)"), &r, w),
                }
            }
        }
        // the conversion must not depend on the representation either (mania key mods)
        if c.src_mode != c.target {
            let mut sigs = Vec::new();
            for repr in 0..5u8 {
                let mut st = c.st.clone();
                st.repr = repr;
                let d = st.difficulty();
                sigs.push(
                    d.calculate_for_mode::<Mania>(&c.map)
                        .map_or("err".to_string(), |a| a.json()),
                );
            }
            if c.target == 3 {
                for (i, s) in sigs.iter().enumerate().skip(1) {
                    f.eq(&format!("mania conversion+difficulty, representation {i} == bits"), s, &sigs[0]);
                }
            }
        }
        // 2. a lazer rate mod with speed change r == the same mod by bits + clock_rate(r)
        let base_bits = c.st.bits & !(64 | 256 | 512);
        let rate_bits = match which {
            0 => 64u32,
            1 => 256,
            2 => 512 | 64,
            _ => 0, // Daycore has no legacy bit: compare against HalfTime's bit
        };
        let rate = match which {
            0 | 2 => rate.max(1.01),
            _ => rate.min(0.99),
        };
        let mut lazer = GameModsLazer::from_intermode(&GameModsIntermode::from_bits(base_bits), lazer_mode(c.target));
        lazer.insert(lazer_rate_mod(c.target, which, Some(rate)));
        let mut st = c.st.clone();
        st.clock_rate = None;
        let d_lazer = apply_rest(&st, Difficulty::new().mods(lazer));
        let d_rate = apply_rest(&st, Difficulty::new().mods(base_bits | if which == 3 { 256 } else { rate_bits })).clock_rate(rate);
        f.eq(
            &format!("lazer rate mod #{which} speed_change={rate} == clock_rate({rate})"),
            &all_results(&d_lazer, &c.conv, &spec),
            &all_results(&d_rate, &c.conv, &spec),
        );
        // the explicit rate wins whichever of the two calls comes first
        let d_rate_first = apply_rest(&st, Difficulty::new().clock_rate(rate).mods(base_bits | if which == 3 { 256 } else { rate_bits }));
        f.eq(
            &format!("lazer rate mod #{which} speed_change={rate} == clock_rate({rate}) given before the mods"),
            &all_results(&d_lazer, &c.conv, &spec),
            &all_results(&d_rate_first, &c.conv, &spec),
        );
        // default speed change == legacy mod
        if which != 3 {
            let mut lazer = GameModsLazer::from_intermode(&GameModsIntermode::from_bits(base_bits), lazer_mode(c.target));
            lazer.insert(lazer_rate_mod(c.target, which, None));
            f.eq(
                &format!("lazer rate mod #{which} default speed == legacy bit"),
                &all_results(&apply_rest(&st, Difficulty::new().mods(lazer)), &c.conv, &spec),
                &all_results(&apply_rest(&st, Difficulty::new().mods(base_bits | rate_bits)), &c.conv, &spec),
            );
        }
        // 3. lazer DifficultyAdjust value == Difficulty::ar/cs/hp/od(value, false)
        let mut lazer = GameModsLazer::from_intermode(&GameModsIntermode::from_bits(c.st.bits), lazer_mode(c.target));
        lazer.insert(lazer_da(c.target, ar, cs, hp, od));
        let mut st0 = c.st.clone();
        st0.ar = None;
        st0.cs = None;
        st0.hp = None;
        st0.od = None;
        let d_da = apply_rest(&st0, Difficulty::new().mods(lazer));
        let mut d_ov = apply_rest(&st0, Difficulty::new().mods(c.st.bits));
        let uses_ar_cs = c.target == 0 || c.target == 2;
        if let (Some(v), true) = (ar, uses_ar_cs) {
            d_ov = d_ov.ar(v as f32, false);
        }
        if let (Some(v), true) = (cs, uses_ar_cs) {
            d_ov = d_ov.cs(v as f32, false);
        }
        if let Some(v) = hp {
            d_ov = d_ov.hp(v as f32, false);
        }
        if let Some(v) = od {
            d_ov = d_ov.od(v as f32, false);
        }
        f.eq(
            "lazer DifficultyAdjust == Difficulty::ar/cs/hp/od(value, false)",
            &all_results(&d_da, &c.conv, &spec),
            &all_results(&d_ov, &c.conv, &spec),
        );
    })
}

/// (ar, cs, hp, od)
pub fn lazer_da_pub(mode: u8, ar: Option<f64>, cs: Option<f64>, hp: Option<f64>, od: Option<f64>) -> GameMod {
    lazer_da(mode, ar, cs, hp, od)
}

fn lazer_mode(m: u8) -> rosu_mods::GameMode {
    match m {
        0 => rosu_mods::GameMode::Osu,
        1 => rosu_mods::GameMode::Taiko,
        2 => rosu_mods::GameMode::Catch,
        _ => rosu_mods::GameMode::Mania,
    }
}

/// Everything of the settings except the mods.
fn apply_rest(st: &Settings, mut d: Difficulty) -> Difficulty {
    if let Some(cr) = st.clock_rate {
        d = d.clock_rate(cr);
    }
    if let Some((v, f)) = st.ar {
        d = d.ar(v, f);
    }
    if let Some((v, f)) = st.cs {
        d = d.cs(v, f);
    }
    if let Some((v, f)) = st.hp {
        d = d.hp(v, f);
    }
    if let Some((v, f)) = st.od {
        d = d.od(v, f);
    }
    if let Some(b) = st.hardrock_offsets {
        d = d.hardrock_offsets(b);
    }
    if let Some(b) = st.lazer {
        d = d.lazer(b);
    }
    if let Some(n) = st.passed {
        d = d.passed_objects(n);
    }
    d
}

// ------------------------------------------------------------------------------ C18

#[derive(Clone, Debug)]
enum Setter {
    Mods(u32),
    Passed(u32),
    Clock(f64),
    Ar(f32, bool),
    Cs(f32, bool),
    Hp(f32, bool),
    Od(f32, bool),
    Hro(bool),
    Lazer(bool),
}

impl Setter {
    fn name(&self) -> &'static str {
        match self {
            Setter::Mods(_) => "mods",
            Setter::Passed(_) => "passed_objects",
            Setter::Clock(_) => "clock_rate",
            Setter::Ar(..) => "ar",
            Setter::Cs(..) => "cs",
            Setter::Hp(..) => "hp",
            Setter::Od(..) => "od",
            Setter::Hro(_) => "hardrock_offsets",
            Setter::Lazer(_) => "lazer",
        }
    }
    fn on_difficulty(&self, d: Difficulty) -> Difficulty {
        match *self {
            Setter::Mods(b) => d.mods(b),
            Setter::Passed(n) => d.passed_objects(n),
            Setter::Clock(c) => d.clock_rate(c),
            Setter::Ar(v, f) => d.ar(v, f),
            Setter::Cs(v, f) => d.cs(v, f),
            Setter::Hp(v, f) => d.hp(v, f),
            Setter::Od(v, f) => d.od(v, f),
            Setter::Hro(b) => d.hardrock_offsets(b),
            Setter::Lazer(b) => d.lazer(b),
        }
    }
    fn on_performance<'a>(&self, p: Performance<'a>) -> Performance<'a> {
        match *self {
            Setter::Mods(b) => p.mods(b),
            Setter::Passed(n) => p.passed_objects(n),
            Setter::Clock(c) => p.clock_rate(c),
            Setter::Ar(v, f) => p.ar(v, f),
            Setter::Cs(v, f) => p.cs(v, f),
            Setter::Hp(v, f) => p.hp(v, f),
            Setter::Od(v, f) => p.od(v, f),
            Setter::Hro(b) => p.hardrock_offsets(b),
            Setter::Lazer(b) => p.lazer(b),
        }
    }
    fn json(&self) -> String {
        match *self {
            Setter::Mods(b) => format!("[\"mods\",{b}]"),
            Setter::Passed(n) => format!("[\"passed_objects\",{n}]"),
            Setter::Clock(c) => format!("[\"clock_rate\",{}]", c.to_bits()),
            Setter::Ar(v, f) => format!("[\"ar\",{},{f}]", v.to_bits()),
            Setter::Cs(v, f) => format!("[\"cs\",{},{f}]", v.to_bits()),
            Setter::Hp(v, f) => format!("[\"hp\",{},{f}]", v.to_bits()),
            Setter::Od(v, f) => format!("[\"od\",{},{f}]", v.to_bits()),
            Setter::Hro(b) => format!("[\"hardrock_offsets\",{b}]"),
            Setter::Lazer(b) => format!("[\"lazer\",{b}]"),
        }
    }
}

fn gen_attr_value(rng: &mut Rng) -> f32 {
    match rng.below(12) {
        0 => -25.0,
        1 => 25.0,
        2 => -20.0,
        3 => 20.0,
        4 => f32::INFINITY,
        5 => f32::NEG_INFINITY,
        6 => 0.0,
        _ => ((rng.f64_range(-3.0, 13.0) * 10.0).round() / 10.0) as f32,
    }
}

fn gen_clock(rng: &mut Rng) -> f64 {
    match rng.below(16) {
        // the rates mods imply: an explicit rate equal to the current mods' rate must still stick
        12 => 1.0,
        13 => 1.5,
        14 => 0.75,
        15 => 1.0,
        0 => 0.0,
        1 => -1.0,
        2 => 0.01,
        3 => 100.0,
        4 => 1000.0,
        5 => f64::INFINITY,
        6 => 0.001,
        _ => (rng.f64_range(0.3, 2.5) * 100.0).round() / 100.0,
    }
}

fn gen_setters(rng: &mut Rng, mode: u8, total: u64) -> Vec<Setter> {
    let n = 1 + rng.below(7);
    (0..n)
        .map(|_| match rng.below(9) {
            0 => Setter::Mods(gen_settings(rng, mode).bits),
            1 => Setter::Passed(rng.below(total + 3) as u32),
            2 => Setter::Clock(gen_clock(rng)),
            3 => Setter::Ar(gen_attr_value(rng), rng.chance(1, 2)),
            4 => Setter::Cs(gen_attr_value(rng), rng.chance(1, 2)),
            5 => Setter::Hp(gen_attr_value(rng), rng.chance(1, 2)),
            6 => Setter::Od(gen_attr_value(rng), rng.chance(1, 2)),
            7 => Setter::Hro(rng.chance(1, 2)),
            _ => Setter::Lazer(rng.chance(1, 2)),
        })
        .collect()
}

/// Is the setter a documented no-op for this mode?
fn irrelevant(name: &str, mode: u8) -> bool {
    match name {
        "ar" | "cs" => mode == 1 || mode == 3,
        "hardrock_offsets" => mode != 2,
        "lazer" => mode == 1 || mode == 2,
        _ => false,
    }
}

pub fn c18_case(rng: &mut Rng, max_objects: usize) -> String {
    let c = match gen_ctx(rng, max_objects, false) {
        Ok(c) => c,
        Err(e) => return Obj::new().str("skip", &e).done(),
    };
    let total = c.conv.hit_objects.len() as u64;
    let setters = gen_setters(rng, c.target, total);
    let spec = gen_spec(rng, total);
    let o = head("C18", &c)
        .raw("spec", spec.json())
        .raw("setters", arr(setters.iter().map(Setter::json)));
    guarded(o, |f| {
        // 1. Performance setters == Performance::difficulty(Difficulty with the same setters)
        let mut d = Difficulty::new();
        let mut p = Performance::new(&c.conv);
        for s in &setters {
            d = s.on_difficulty(d);
            p = s.on_performance(p);
        }
        let via_setters = spec.apply(p).calculate().json();
        let via_difficulty = spec
            .apply(Performance::new(&c.conv).difficulty(d.clone()))
            .calculate()
            .json();
        f.eq("Performance setters == Performance::difficulty(Difficulty setters)", &via_setters, &via_difficulty);
        // the same through the mode-specific builders
        let mut pm = mode_perf_from_map(c.target, &c.conv);
        for s in &setters {
            pm = s.on_performance(pm);
        }
        f.eq("mode builder setters == Performance::difficulty", &spec.apply(pm).calculate().json(), &via_difficulty);
        // 2. round trip through the inspectable form
        let back = d.clone().inspect().into_difficulty();
        f.eq("Difficulty == inspect().into_difficulty()", &format!("{back:?}"), &format!("{d:?}"));
        f.eq(
            "results after the round trip",
            &all_results(&back, &c.conv, &spec),
            &all_results(&d, &c.conv, &spec),
        );
        // 2b. InspectDifficulty has public fields: whatever a caller writes there goes through the
        // same clamps when it is turned back into a Difficulty
        {
            let mut raw = d.clone().inspect();
            let rc = gen_clock(rng);
            let rv = gen_attr_value(rng);
            raw.clock_rate = Some(if rng.chance(1, 4) { 0.0 } else { rc });
            raw.ar = Some(rosu_pp::any::ModsDependent { value: rv * 3.0, with_mods: rng.chance(1, 2) });
            raw.od = Some(rosu_pp::any::ModsDependent { value: -rv * 3.0, with_mods: rng.chance(1, 2) });
            let want_rate = raw.clock_rate.map(|c| c.clamp(0.01, 100.0));
            let (want_ar, want_od) = (raw.ar.map(|m| m.value.clamp(-20.0, 20.0)), raw.od.map(|m| m.value.clamp(-20.0, 20.0)));
            let shown = raw.into_difficulty().inspect();
            f.holds("hand-written InspectDifficulty::clock_rate is clamped by into_difficulty",
                    shown.clock_rate == want_rate || want_rate.is_some_and(f64::is_nan), &format!("{:?} vs {:?}", shown.clock_rate, want_rate));
            f.holds("hand-written InspectDifficulty::ar / od are clamped by into_difficulty",
                    shown.ar.map(|m| m.value) == want_ar && shown.od.map(|m| m.value) == want_od,
                    &format!("{:?} {:?} vs {:?} {:?}", shown.ar, shown.od, want_ar, want_od));
        }
        // 3. clamps
        let ins = d.clone().inspect();
        if let Some(cr) = ins.clock_rate {
            f.holds("clock_rate within [0.01, 100]", (0.01..=100.0).contains(&cr), &format!("{cr}"));
        }
        for (n, v) in [("ar", ins.ar), ("cs", ins.cs), ("hp", ins.hp), ("od", ins.od)] {
            if let Some(v) = v {
                f.holds(
                    &format!("{n} within [-20, 20]"),
                    (-20.0..=20.0).contains(&v.value),
                    &format!("{}", v.value),
                );
            }
        }
        for s in &setters {
            // the last call of each setter is what the inspectable form shows
            let last = setters.iter().rev().find(|t| t.name() == s.name()).unwrap();
            let shown = match last {
                Setter::Clock(c) => ins.clock_rate == Some(c.clamp(0.01, 100.0)),
                Setter::Ar(v, w) => ins.ar.map(|m| (m.value, m.with_mods)) == Some((v.clamp(-20.0, 20.0), *w)),
                Setter::Cs(v, w) => ins.cs.map(|m| (m.value, m.with_mods)) == Some((v.clamp(-20.0, 20.0), *w)),
                Setter::Hp(v, w) => ins.hp.map(|m| (m.value, m.with_mods)) == Some((v.clamp(-20.0, 20.0), *w)),
                Setter::Od(v, w) => ins.od.map(|m| (m.value, m.with_mods)) == Some((v.clamp(-20.0, 20.0), *w)),
                Setter::Passed(n) => ins.passed_objects == Some(*n),
                Setter::Hro(b) => ins.hardrock_offsets == Some(*b),
                Setter::Lazer(b) => ins.lazer == Some(*b),
                Setter::Mods(_) => true,
            };
            f.holds("inspect shows the clamped value of the last call", shown, &last.json());
        }
        // 4. order of independent setters: keep the last call per name, apply in shuffled order
        let mut lasts: Vec<Setter> = Vec::new();
        for s in setters.iter().rev() {
            if !lasts.iter().any(|t| t.name() == s.name()) {
                lasts.push(s.clone());
            }
        }
        let mut shuffled = lasts.clone();
        for i in (1..shuffled.len()).rev() {
            let j = rng.below(i as u64 + 1) as usize;
            shuffled.swap(i, j);
        }
        let build = |v: &[Setter]| v.iter().fold(Difficulty::new(), |d, s| s.on_difficulty(d));
        f.eq(
            "independent setters commute",
            &format!("{:?}", build(&shuffled)),
            &format!("{:?}", build(&lasts)),
        );
        f.eq("last call wins", &format!("{:?}", build(&lasts)), &format!("{d:?}"));
        // 4b. a setter's effect may not depend on what was set before it or on being called
        // twice: every setter before `mods`, after `mods`, and twice in a row, with values that
        // coincide with what the (earlier or later) mods imply — builder path vs Difficulty path
        let m = *rng.pick(&[16u32, 64, 256, 16 + 64, 2]);
        let pairs: Vec<(Setter, Setter)> = vec![
            (Setter::Hro(false), Setter::Hro(true)),
            (Setter::Hro(true), Setter::Hro(false)),
            (Setter::Clock(1.0), Setter::Clock(1.5)),
            (Setter::Clock(1.5), Setter::Clock(1.0)),
            (Setter::Clock(0.75), Setter::Clock(1.0)),
            (Setter::Lazer(true), Setter::Lazer(false)),
            (Setter::Lazer(false), Setter::Lazer(true)),
            (Setter::Ar(5.0, false), Setter::Ar(9.0, true)),
            (Setter::Cs(4.0, true), Setter::Cs(4.0, false)),
            (Setter::Hp(5.0, false), Setter::Hp(5.0, true)),
            (Setter::Od(5.0, true), Setter::Od(8.0, false)),
            (Setter::Passed(total as u32), Setter::Passed((total / 2) as u32)),
        ];
        for (a, b) in &pairs {
            let seqs: [Vec<Setter>; 4] = [
                vec![a.clone(), Setter::Mods(m)],
                vec![Setter::Mods(m), a.clone(), b.clone()],
                vec![Setter::Mods(m), a.clone(), b.clone(), a.clone()],
                vec![a.clone(), Setter::Mods(m), Setter::Mods(0), b.clone()],
            ];
            for seq in &seqs {
                let mut d = Difficulty::new();
                let mut p = Performance::new(&c.conv);
                let mut pm = mode_perf_from_map(c.target, &c.conv);
                for s in seq {
                    d = s.on_difficulty(d);
                    p = s.on_performance(p);
                    pm = s.on_performance(pm);
                }
                let want = spec.apply(Performance::new(&c.conv).difficulty(d)).calculate().json();
                let names = arr(seq.iter().map(Setter::json));
                f.eq(&format!("Performance setters in the order {names} == the same calls on a Difficulty"),
                     &spec.apply(p).calculate().json(), &want);
                f.eq(&format!("mode builder setters in the order {names} == the same calls on a Difficulty"),
                     &spec.apply(pm).calculate().json(), &want);
            }
        }
        // 4c. a mode request that cannot be honoured (the calculator holds attributes, not a map)
        // leaves every setting in place: mode_or_ignore is a no-op, try_mode hands the calculator back
        {
            let attrs0 = Difficulty::new().calculate(&c.conv);
            let build = || {
                let mut p = Performance::new(attrs0.clone());
                for s in &setters {
                    p = s.on_performance(p);
                }
                spec.apply(p)
            };
            let want0 = build().calculate().json();
            for tm in [GameMode::Osu, GameMode::Taiko, GameMode::Catch, GameMode::Mania] {
                f.eq(&format!("mode_or_ignore({tm:?}) on a calculator built from attributes changes nothing"),
                     &build().mode_or_ignore(tm).calculate().json(), &want0);
                let back = match build().try_mode(tm) {
                    Ok(p) | Err(p) => p.calculate().json(),
                };
                f.eq(&format!("try_mode({tm:?}) on a calculator built from attributes hands it back unchanged"), &back, &want0);
            }
        }
        // 5. setters documented as irrelevant for the mode leave the result untouched
        let base = c.st.difficulty();
        let want = spec
            .apply(Performance::new(&c.conv).difficulty(base.clone()))
            .calculate()
            .json();
        for s in [
            Setter::Ar(gen_attr_value(rng), rng.chance(1, 2)),
            Setter::Cs(gen_attr_value(rng), rng.chance(1, 2)),
            Setter::Hro(rng.chance(1, 2)),
            Setter::Lazer(rng.chance(1, 2)),
        ] {
            if irrelevant(s.name(), c.target) {
                let p = s.on_performance(Performance::new(&c.conv).difficulty(base.clone()));
                f.eq(&format!("Performance::{} is irrelevant for this mode", s.name()), &spec.apply(p).calculate().json(), &want);
                let d2 = s.on_difficulty(base.clone());
                let p = Performance::new(&c.conv).difficulty(d2);
                f.eq(&format!("Difficulty::{} is irrelevant for this mode", s.name()), &spec.apply(p).calculate().json(), &want);
            }
        }
        let v = rng.below(total + 3) as u32;
        let score_noops: [(&str, bool, Box<dyn Fn(Performance<'_>) -> Performance<'_>>); 7] = [
            ("combo", c.target == 3, Box::new(move |p| p.combo(v))),
            ("n50", c.target == 1, Box::new(move |p| p.n50(v))),
            ("n_katu", c.target <= 1, Box::new(move |p| p.n_katu(v))),
            ("n_geki", c.target <= 2, Box::new(move |p| p.n_geki(v))),
            ("large_tick_hits", c.target != 0, Box::new(move |p| p.large_tick_hits(v))),
            ("small_tick_hits", c.target != 0, Box::new(move |p| p.small_tick_hits(v))),
            ("slider_end_hits", c.target != 0, Box::new(move |p| p.slider_end_hits(v))),
        ];
        let mut spec2 = spec.clone();
        spec2.state = None; // `state` sets every field; keep the individual setters observable
        let want2 = spec2
            .apply(Performance::new(&c.conv).difficulty(base.clone()))
            .calculate()
            .json();
        for (name, noop, call) in &score_noops {
            if *noop {
                let p = call(spec2.apply(Performance::new(&c.conv).difficulty(base.clone())));
                f.eq(&format!("Performance::{name} is irrelevant for this mode"), &p.calculate().json(), &want2);
            }
        }
    })
}

pub fn main(prop: &str, seed: u64, count: u64, max_objects: usize) {
    for k in 0..count {
        let mut rng = Rng::fork(seed ^ fnv(prop), k);
        let line = match prop {
            "c04" => c04_case(&mut rng, max_objects),
            "c07" => c07_case(&mut rng, max_objects),
            "c08" => c08_case(&mut rng, max_objects),
            _ => c18_case(&mut rng, max_objects),
        };
        println!("{{\"id\":{k},{}", &line[1..]);
    }
}

#[allow(dead_code)]
fn _unused() -> String {
    esc("")
}
