//! Canonical dumps: every attribute struct as (integer fields, float fields as bits).

use rosu_pp::{
    any::{DifficultyAttributes, PerformanceAttributes},
    catch::{CatchDifficultyAttributes, CatchPerformanceAttributes},
    mania::{ManiaDifficultyAttributes, ManiaPerformanceAttributes},
    osu::{OsuDifficultyAttributes, OsuPerformanceAttributes},
    taiko::{TaikoDifficultyAttributes, TaikoPerformanceAttributes},
};

use crate::json::{arr, fbits};

pub trait Canon {
    fn ints(&self) -> Vec<u64>;
    fn floats(&self) -> Vec<f64>;
    fn json(&self) -> String {
        format!(
            "{{\"i\":{},\"f\":{}}}",
            arr(self.ints()),
            arr(self.floats().into_iter().map(fbits))
        )
    }
}

impl Canon for OsuDifficultyAttributes {
    fn ints(&self) -> Vec<u64> {
        vec![
            self.n_circles.into(),
            self.n_sliders.into(),
            self.n_large_ticks.into(),
            self.n_spinners.into(),
            self.max_combo.into(),
        ]
    }
    fn floats(&self) -> Vec<f64> {
        vec![
            self.aim,
            self.aim_difficult_slider_count,
            self.speed,
            self.flashlight,
            self.slider_factor,
            self.speed_note_count,
            self.aim_difficult_strain_count,
            self.speed_difficult_strain_count,
            self.ar,
            self.great_hit_window,
            self.ok_hit_window,
            self.meh_hit_window,
            self.hp,
            self.stars,
        ]
    }
}

impl Canon for TaikoDifficultyAttributes {
    fn ints(&self) -> Vec<u64> {
        vec![self.max_combo.into(), self.is_convert.into()]
    }
    fn floats(&self) -> Vec<f64> {
        vec![
            self.stamina,
            self.rhythm,
            self.color,
            self.reading,
            self.great_hit_window,
            self.ok_hit_window,
            self.mono_stamina_factor,
            self.stars,
        ]
    }
}

impl Canon for CatchDifficultyAttributes {
    fn ints(&self) -> Vec<u64> {
        vec![
            self.n_fruits.into(),
            self.n_droplets.into(),
            self.n_tiny_droplets.into(),
            self.is_convert.into(),
        ]
    }
    fn floats(&self) -> Vec<f64> {
        vec![self.stars, self.ar]
    }
}

impl Canon for ManiaDifficultyAttributes {
    fn ints(&self) -> Vec<u64> {
        vec![
            self.n_objects.into(),
            self.n_hold_notes.into(),
            self.max_combo.into(),
            self.is_convert.into(),
        ]
    }
    fn floats(&self) -> Vec<f64> {
        vec![self.stars]
    }
}

impl Canon for DifficultyAttributes {
    fn ints(&self) -> Vec<u64> {
        match self {
            Self::Osu(a) => a.ints(),
            Self::Taiko(a) => a.ints(),
            Self::Catch(a) => a.ints(),
            Self::Mania(a) => a.ints(),
        }
    }
    fn floats(&self) -> Vec<f64> {
        match self {
            Self::Osu(a) => a.floats(),
            Self::Taiko(a) => a.floats(),
            Self::Catch(a) => a.floats(),
            Self::Mania(a) => a.floats(),
        }
    }
}

fn optf(x: Option<f64>) -> [f64; 2] {
    match x {
        Some(v) => [1.0, v],
        None => [0.0, 0.0],
    }
}

impl Canon for OsuPerformanceAttributes {
    fn ints(&self) -> Vec<u64> {
        self.difficulty.ints()
    }
    fn floats(&self) -> Vec<f64> {
        let mut v = self.difficulty.floats();
        v.extend([
            self.pp,
            self.pp_acc,
            self.pp_aim,
            self.pp_flashlight,
            self.pp_speed,
            self.effective_miss_count,
        ]);
        v.extend(optf(self.speed_deviation));
        v
    }
}

impl Canon for TaikoPerformanceAttributes {
    fn ints(&self) -> Vec<u64> {
        self.difficulty.ints()
    }
    fn floats(&self) -> Vec<f64> {
        let mut v = self.difficulty.floats();
        v.extend([
            self.pp,
            self.pp_acc,
            self.pp_difficulty,
            self.effective_miss_count,
        ]);
        v.extend(optf(self.estimated_unstable_rate));
        v
    }
}

impl Canon for CatchPerformanceAttributes {
    fn ints(&self) -> Vec<u64> {
        self.difficulty.ints()
    }
    fn floats(&self) -> Vec<f64> {
        let mut v = self.difficulty.floats();
        v.push(self.pp);
        v
    }
}

impl Canon for ManiaPerformanceAttributes {
    fn ints(&self) -> Vec<u64> {
        self.difficulty.ints()
    }
    fn floats(&self) -> Vec<f64> {
        let mut v = self.difficulty.floats();
        v.extend([self.pp, self.pp_difficulty]);
        v
    }
}

impl Canon for PerformanceAttributes {
    fn ints(&self) -> Vec<u64> {
        match self {
            Self::Osu(a) => a.ints(),
            Self::Taiko(a) => a.ints(),
            Self::Catch(a) => a.ints(),
            Self::Mania(a) => a.ints(),
        }
    }
    fn floats(&self) -> Vec<f64> {
        match self {
            Self::Osu(a) => a.floats(),
            Self::Taiko(a) => a.floats(),
            Self::Catch(a) => a.floats(),
            Self::Mania(a) => a.floats(),
        }
    }
}
