//! Determinism and purity (C01): `bpm` traces for the Coq model, and the `det` oracle that
//! repeats every calculation in varying orders and checks that the map is left untouched.

use std::{
    fmt::Write,
    panic::{catch_unwind, AssertUnwindSafe},
};

use rosu_pp::{Beatmap, Difficulty, GradualDifficulty, GradualPerformance, Performance};

use crate::{
    canon::Canon,
    eqv::{gen_spec, strains_sig, Spec},
    gen::{gen_any, GenOpts, Shape},
    gperf::gen_state,
    grad::{mode_of, panic_msg},
    json::{arr, Obj},
    rng::Rng,
    settings::{gen_settings, Settings},
};

fn fnv(s: &str) -> u64 {
    let mut h: u64 = 0xcbf2_9ce4_8422_2325;
    for b in s.bytes() {
        h ^= u64::from(b);
        h = h.wrapping_mul(0x100_0000_01b3);
    }
    h
}

// ------------------------------------------------------------------------------ bpm

/// `HitObject::end_time` (crate-private): start time, plus the duration of spinners and holds.
fn end_time(h: &rosu_pp::model::hit_object::HitObject) -> f64 {
    use rosu_pp::model::hit_object::HitObjectKind;
    match &h.kind {
        HitObjectKind::Circle | HitObjectKind::Slider(_) => h.start_time,
        HitObjectKind::Spinner(s) => h.start_time + s.duration,
        HitObjectKind::Hold(s) => h.start_time + s.duration,
    }
}

/// Tempo sections whose accumulated durations are equal in decimal arithmetic (times with two
/// decimals) but, summed as f64 differences, typically differ in the last place: near-ties.
fn gen_bpm_near_tie_text(rng: &mut Rng) -> String {
    let mut t = String::from("osu file format v14\n\n[General]\nMode: 0\n\n[TimingPoints]\n");
    let pool = [500.0, 400.0, 375.0, 333.333, 250.0, 1000.0];
    let k = 3 + rng.below(2) as usize;
    let start = rng.below(pool.len() as u64) as usize;
    let total_cs = 1_000_000 + rng.below(4_000_000) as i64; // per tempo, in 1/100 ms
    let pieces = 2 + rng.below(2) as usize;
    // cut points per tempo
    let cuts: Vec<Vec<i64>> = (0..k)
        .map(|_| {
            let mut c: Vec<i64> = (0..pieces - 1).map(|_| 1 + rng.below(total_cs as u64 - 1) as i64).collect();
            c.sort_unstable();
            let mut lens = Vec::new();
            let mut prev = 0;
            for x in c {
                lens.push(x - prev);
                prev = x;
            }
            lens.push(total_cs - prev);
            lens
        })
        .collect();
    let mut time_cs: i64 = if rng.chance(1, 2) { 0 } else { rng.below(100_000) as i64 };
    let fmt = |cs: i64| format!("{}.{:02}", cs / 100, cs % 100);
    // the first timing point is forced to start at 0 by bpm(): keep it there
    time_cs = if time_cs < 100 { 0 } else { 0 };
    for p in 0..pieces {
        for (j, lens) in cuts.iter().enumerate() {
            let bl = pool[(start + j) % pool.len()];
            writeln!(t, "{},{bl},4,2,0,60,1,0", fmt(time_cs)).unwrap();
            time_cs += lens[p].max(1);
        }
    }
    t.push_str("\n[HitObjects]\n");
    writeln!(t, "256,192,{},1,0,0:0:0:0:", fmt(time_cs)).unwrap();
    t
}

fn gen_bpm_text(rng: &mut Rng) -> String {
    if rng.chance(1, 3) {
        return gen_bpm_near_tie_text(rng);
    }
    let mut t = String::from("osu file format v14\n\n[General]\nMode: 0\n\n[TimingPoints]\n");
    let n = rng.below(8);
    let pool = [500.0, 250.0, 333.333, 500.0004, 1000.0, 250.0002, 499.9996, 375.0];
    let mut time = if rng.chance(1, 4) { -(rng.below(3) as f64) * 1000.0 } else { 0.0 };
    for _ in 0..n {
        let bl = *rng.pick(&pool);
        writeln!(t, "{time},{bl},4,2,0,60,1,0").unwrap();
        // equal section lengths make ties likely
        time += match rng.below(5) {
            0 => 500.0,
            1 => 2000.0,
            _ => 1000.0,
        };
        if rng.chance(1, 6) {
            // an inherited line in between (not a timing point)
            writeln!(t, "{},-100,4,2,0,60,0,0", time - 250.0).unwrap();
        }
    }
    t.push_str("\n[HitObjects]\n");
    match rng.below(5) {
        0 => {}
        1 => writeln!(t, "256,192,{},1,0,0:0:0:0:", time).unwrap(),
        2 => writeln!(t, "256,192,{},1,0,0:0:0:0:", (time / 2.0).floor()).unwrap(),
        3 => writeln!(t, "256,192,{},12,0,{},0:0:0:0:", time - 500.0, time + 1500.0).unwrap(),
        _ => writeln!(t, "256,192,{},1,0,0:0:0:0:", time + 1000.0).unwrap(),
    }
    t
}

pub fn bpm_case(rng: &mut Rng) -> String {
    let text = gen_bpm_text(rng);
    let Ok(map) = Beatmap::from_bytes(text.as_bytes()) else {
        return Obj::new().str("skip", "io").done();
    };
    let first = map.bpm();
    let mut distinct = vec![first.to_bits()];
    for k in 0..40 {
        // fresh hash maps (and, every few calls, a fresh clone of the map)
        let v = if k % 5 == 0 { map.clone().bpm() } else { map.bpm() };
        if !distinct.contains(&v.to_bits()) {
            distinct.push(v.to_bits());
        }
    }
    Obj::new()
        .str("map", &text)
        .raw(
            "tps",
            arr(map
                .timing_points
                .iter()
                .map(|t| format!("[{},{}]", t.time.to_bits(), t.beat_len.to_bits()))),
        )
        .raw(
            "last_end",
            map.hit_objects
                .last()
                .map_or("null".to_string(), |h| end_time(h).to_bits().to_string()),
        )
        .raw("bpm", first.to_bits())
        .raw("distinct", arr(distinct))
        .done()
}

// ------------------------------------------------------------------------------ det

struct Job {
    text: String,
    shape: &'static str,
    map: Beatmap,
    target: u8,
    st: Settings,
    spec: Spec,
}

fn gen_job(rng: &mut Rng, max_objects: usize) -> Option<Job> {
    let shape = match rng.below(6) {
        0 | 1 => Some(Shape::Ties),
        2 => Some(Shape::Stacked),
        _ => None,
    };
    let gm = gen_any(
        rng,
        &GenOpts {
            max_objects,
            shape,
            ..Default::default()
        },
    );
    let map = Beatmap::from_bytes(gm.text.as_bytes()).ok()?;
    let src_mode = map.mode as u8;
    let target = if src_mode == 0 && rng.chance(2, 3) {
        rng.below(4) as u8
    } else {
        src_mode
    };
    let mut st = gen_settings(rng, target);
    // conversion-relevant lazer mods (Random seeds, HoldOff, Invert) are where hidden state
    // would most plausibly enter
    if (target == 1 || target == 3) && rng.chance(1, 2) {
        st.repr = 4;
        st.lazer_extra = 1 + rng.below(7) as u8;
    }
    map.convert_ref(mode_of(target), &st.difficulty().inspect().mods).ok()?;
    let spec = gen_spec(rng, map.hit_objects.len() as u64);
    Some(Job {
        text: gm.text,
        shape: gm.shape,
        map,
        target,
        st,
        spec,
    })
}

/// Everything the public API computes for a job, as one signature per API.
fn signatures(j: &Job, d: &Difficulty, rng_states: &[rosu_pp::any::ScoreState]) -> Vec<(&'static str, String)> {
    let mut v = Vec::new();
    let mode = mode_of(j.target);
    let conv = j.map.convert_ref(mode, &d.clone().inspect().mods).expect("convertible");
    v.push(("convert", format!("{:016x}", fnv(&format!("{:?}", &*conv)))));
    v.push(("bpm", j.map.bpm().to_bits().to_string()));
    v.push(("difficulty", d.calculate(&conv).json()));
    v.push(("strains", strains_sig(&d.strains(&conv))));
    let perf = j
        .spec
        .apply(Performance::new(&j.map).difficulty(d.clone()).mode_or_ignore(mode))
        .calculate();
    v.push(("performance", perf.json()));
    if conv.hit_objects.len() <= 30 {
        if let Ok(mut g) = GradualDifficulty::new_with_mode(d.clone(), &j.map, mode) {
            let mut vals = Vec::new();
            while let Some(a) = g.next() {
                vals.push(a.json());
                if vals.len() > conv.hit_objects.len() * 3 + 8 {
                    break;
                }
            }
            v.push(("gradual difficulty", format!("{:016x}", fnv(&arr(vals)))));
        }
        if let Ok(mut g) = GradualPerformance::new_with_mode(d.clone(), &j.map, mode) {
            let mut vals = Vec::new();
            let mut k = 0;
            while let Some(a) = g.next(rng_states[k % rng_states.len()].clone()) {
                vals.push(a.json());
                k += 1;
                if k > conv.hit_objects.len() * 3 + 8 {
                    break;
                }
            }
            v.push(("gradual performance", format!("{:016x}", fnv(&arr(vals)))));
        }
    }
    let decoded = Beatmap::from_bytes(j.text.as_bytes()).map(|m| format!("{:016x}", fnv(&format!("{m:?}"))));
    v.push(("decode", decoded.unwrap_or_else(|e| e.to_string())));
    v
}

/// A group of jobs evaluated several times in different orders; every evaluation must give
/// the signatures of the first one, and no map may change.
pub fn det_group(rng: &mut Rng, max_objects: usize, group: usize) -> Vec<String> {
    let jobs: Vec<Job> = (0..group * 2).filter_map(|_| gen_job(rng, max_objects)).take(group).collect();
    let states: Vec<_> = (0..3).map(|_| gen_state(rng, 20)).collect();
    let before: Vec<u64> = jobs.iter().map(|j| fnv(&format!("{:?}", j.map))).collect();
    let reused: Vec<Difficulty> = jobs.iter().map(|j| j.st.difficulty()).collect();
    let mut reference: Vec<Option<Vec<(&'static str, String)>>> = vec![None; jobs.len()];
    let mut fails: Vec<Vec<String>> = vec![Vec::new(); jobs.len()];
    let mut evals = vec![0u64; jobs.len()];
    for round in 0..4 {
        // a different order in every round
        let mut order: Vec<usize> = (0..jobs.len()).collect();
        for i in (1..order.len()).rev() {
            let k = rng.below(i as u64 + 1) as usize;
            order.swap(i, k);
        }
        for &i in &order {
            let j = &jobs[i];
            // fresh vs reused builder values
            let d = if round % 2 == 0 { reused[i].clone() } else { j.st.difficulty() };
            let res = catch_unwind(AssertUnwindSafe(|| signatures(j, &d, &states)));
            evals[i] += 1;
            match res {
                Err(e) => fails[i].push(format!("panicked in round {round}: {}", panic_msg(e))),
                Ok(sig) => match &reference[i] {
                    None => reference[i] = Some(sig),
                    Some(r) => {
                        for ((name, a), (_, b)) in sig.iter().zip(r.iter()) {
                            if a != b && fails[i].len() < 4 {
                                fails[i].push(format!(
                                    "{name} differs between evaluations (round {round} vs first): {} vs {}",
                                    &a[..a.len().min(300)],
                                    &b[..b.len().min(300)]
                                ));
                            }
                        }
                    }
                },
            }
            if fnv(&format!("{:?}", j.map)) != before[i] && fails[i].len() < 4 {
                fails[i].push("the map passed by reference was modified".to_string());
            }
        }
    }
    // histories with in-place edits: the caller owns the map and all of its fields are public, so
    // a result may depend on the map's *content* only — after any edit made between two
    // calculations (same allocation, same lengths) the map must still give what a clone of it gives
    for (i, j) in jobs.iter().enumerate() {
        let mut m = j.map.clone();
        for step in 0..3 {
            let warm = Job { text: j.text.clone(), shape: j.shape, map: m, target: j.target, st: j.st.clone(), spec: j.spec.clone() };
            let d = warm.st.difficulty();
            let _ = catch_unwind(AssertUnwindSafe(|| signatures(&warm, &d, &states)));
            m = warm.map;
            let what = match (rng.below(5) + step) % 5 {
                0 => {
                    m.od = (m.od + 1.7) % 10.0;
                    m.cs = (m.cs + 0.9) % 10.0;
                    "od/cs changed"
                }
                1 => {
                    for h in m.hit_objects.iter_mut() {
                        h.pos.x = 512.0 - h.pos.x;
                    }
                    "objects mirrored"
                }
                2 => {
                    for h in m.hit_objects.iter_mut() {
                        h.start_time = h.start_time * 1.5 + 40.0;
                    }
                    "object times stretched"
                }
                3 => {
                    m.slider_multiplier = m.slider_multiplier * 0.75 + 0.2;
                    m.slider_tick_rate = if m.slider_tick_rate == 1.0 { 2.0 } else { 1.0 };
                    "slider settings changed"
                }
                _ => {
                    let n = m.hit_objects.len();
                    if n >= 2 {
                        m.hit_objects.swap(0, n - 1);
                        let (a, b) = (m.hit_objects[0].start_time, m.hit_objects[n - 1].start_time);
                        m.hit_objects[0].start_time = b;
                        m.hit_objects[n - 1].start_time = a;
                    }
                    "first and last object exchanged"
                }
            };
            if m.convert_ref(mode_of(j.target), &d.clone().inspect().mods).is_err() {
                break;
            }
            let edited = Job { text: j.text.clone(), shape: j.shape, map: m, target: j.target, st: j.st.clone(), spec: j.spec.clone() };
            let fresh = Job { text: j.text.clone(), shape: j.shape, map: edited.map.clone(), target: j.target, st: j.st.clone(), spec: j.spec.clone() };
            let a = catch_unwind(AssertUnwindSafe(|| signatures(&edited, &d, &states)));
            let b = catch_unwind(AssertUnwindSafe(|| signatures(&fresh, &d, &states)));
            evals[i] += 2;
            match (a, b) {
                (Ok(a), Ok(b)) => {
                    for ((name, x), (_, y)) in a.iter().zip(b.iter()) {
                        if x != y && fails[i].len() < 4 {
                            fails[i].push(format!(
                                "{name} on a map edited in place ({what}) differs from the same calculation on a clone of it: {} vs {}",
                                &x[..x.len().min(300)],
                                &y[..y.len().min(300)]
                            ));
                        }
                    }
                }
                (Err(_), Err(_)) => {}
                _ => fails[i].push(format!("panic on only one of: map edited in place ({what}) / its clone")),
            }
            m = edited.map;
        }
    }
    // a different map of the same size right after this one, on the same thread and call path: it must
    // give what it gives on a thread that has never calculated anything (per-thread caches keyed by
    // sizes or addresses would leak from one job into the next)
    for (i, j) in jobs.iter().enumerate() {
        let mut twin = j.map.clone();
        twin.hp = (twin.hp + 4.7) % 10.0;
        twin.ar = (twin.ar + 5.3) % 10.0;
        twin.od = (twin.od + 3.1) % 10.0;
        for h in twin.hit_objects.iter_mut() {
            h.start_time = h.start_time * 3.0 + 17.0;
        }
        let d = reused[i].clone();
        if twin.convert_ref(mode_of(j.target), &d.clone().inspect().mods).is_err() {
            continue;
        }
        let twin_job = Job { text: j.text.clone(), shape: j.shape, map: twin, target: j.target, st: j.st.clone(), spec: j.spec.clone() };
        let fresh = std::thread::scope(|sc| {
            sc.spawn(|| catch_unwind(AssertUnwindSafe(|| signatures(&twin_job, &d, &states)))).join()
        });
        let _ = catch_unwind(AssertUnwindSafe(|| signatures(j, &d, &states)));
        let here = catch_unwind(AssertUnwindSafe(|| signatures(&twin_job, &d, &states)));
        evals[i] += 2;
        if let (Ok(Ok(a)), Ok(b)) = (fresh, here) {
            for ((name, x), (_, y)) in b.iter().zip(a.iter()) {
                if *name != "decode" && x != y && fails[i].len() < 4 {
                    fails[i].push(format!(
                        "{name} of a same-sized sibling map calculated right after this one differs from its result on a fresh thread: {} vs {}",
                        &x[..x.len().min(200)],
                        &y[..y.len().min(200)]
                    ));
                }
            }
        }
    }
    // interleaved instances: two gradual calculators (different maps / settings) stepped
    // alternately on this thread must each produce the sequence they produce alone
    for i in 0..jobs.len().saturating_sub(1) {
        let (ja, jb) = (&jobs[i], &jobs[i + 1]);
        let want = |k: usize, name: &str| -> Option<String> {
            reference[k].as_ref().and_then(|r| r.iter().find(|(n, _)| *n == name).map(|(_, v)| v.clone()))
        };
        let (Some(wa), Some(wb)) = (want(i, "gradual difficulty"), want(i + 1, "gradual difficulty")) else {
            continue;
        };
        let res = catch_unwind(AssertUnwindSafe(|| {
            let mut ga = GradualDifficulty::new_with_mode(reused[i].clone(), &ja.map, mode_of(ja.target)).ok()?;
            let mut gb = GradualDifficulty::new_with_mode(reused[i + 1].clone(), &jb.map, mode_of(jb.target)).ok()?;
            // the same cut-off as in `signatures` (the reference sequences were recorded with it)
            let bound = |j: &Job, d: &Difficulty| {
                j.map.convert_ref(mode_of(j.target), &d.clone().inspect().mods).map(|c| c.hit_objects.len() * 3 + 8).unwrap_or(0)
            };
            let (ba, bb) = (bound(ja, &reused[i]), bound(jb, &reused[i + 1]));
            let (mut va, mut vb) = (Vec::new(), Vec::new());
            let (mut da, mut db) = (false, false);
            while !(da && db) {
                if !da {
                    match ga.next() {
                        Some(a) => {
                            va.push(a.json());
                            da = va.len() > ba;
                        }
                        None => da = true,
                    }
                }
                if !db {
                    match gb.next() {
                        Some(a) => {
                            vb.push(a.json());
                            db = vb.len() > bb;
                        }
                        None => db = true,
                    }
                }
            }
            Some((format!("{:016x}", fnv(&arr(va))), format!("{:016x}", fnv(&arr(vb)))))
        }));
        evals[i] += 1;
        match res {
            Ok(Some((a, b))) => {
                if a != wa && fails[i].len() < 4 {
                    fails[i].push("gradual difficulty stepped alternately with another calculator on the same thread differs from stepping it alone".to_string());
                }
                if b != wb && fails[i + 1].len() < 4 {
                    fails[i + 1].push("gradual difficulty stepped alternately with another calculator on the same thread differs from stepping it alone".to_string());
                }
            }
            Ok(None) => {}
            Err(e) => fails[i].push(format!("panic while interleaving two gradual calculators: {}", panic_msg(e))),
        }
    }
    // one Performance builder value serving several requests: generate_state, generate_state again,
    // then calculate - each equals the request on a fresh builder
    for (i, j) in jobs.iter().enumerate() {
        if reference[i].is_none() {
            continue;
        }
        let mode = mode_of(j.target);
        let d = reused[i].clone();
        let res = catch_unwind(AssertUnwindSafe(|| {
            let mk = || j.spec.apply(Performance::new(&j.map).difficulty(d.clone()).mode_or_ignore(mode));
            let fresh_state = mk().generate_state();
            let fresh_calc = mk().calculate().json();
            let mut b = mk();
            let s1 = b.generate_state();
            let s2 = b.generate_state();
            let c = b.calculate().json();
            let mut bad = Vec::new();
            if s1 != fresh_state {
                bad.push("generate_state on a builder differs from the same request on an identical fresh builder");
            }
            if s2 != s1 {
                bad.push("a second generate_state on the same builder returns another state than the first");
            }
            if c != fresh_calc {
                bad.push("calculate() on a builder that already served generate_state differs from calculate() on a fresh builder");
            }
            bad
        }));
        evals[i] += 1;
        match res {
            Ok(bad) => fails[i].extend(bad.into_iter().map(String::from)),
            Err(e) => fails[i].push(format!("panic while reusing a Performance builder: {}", panic_msg(e))),
        }
    }
    // another call history to the same positions: jumps with nth(k) instead of stepping with next()
    for (i, j) in jobs.iter().enumerate() {
        if j.map.hit_objects.len() > 30 || reference[i].is_none() {
            continue;
        }
        let mode = mode_of(j.target);
        let d = reused[i].clone();
        let res = catch_unwind(AssertUnwindSafe(|| {
            let mut g = GradualDifficulty::new_with_mode(d.clone(), &j.map, mode).ok()?;
            let mut stepped = Vec::new();
            while let Some(a) = g.next() {
                stepped.push(a.json());
                if stepped.len() > 100_000 {
                    return None;
                }
            }
            let mut rng = Rng::fork(0x6a75_6d70, i as u64 + stepped.len() as u64);
            let mut g = GradualDifficulty::new_with_mode(d.clone(), &j.map, mode).ok()?;
            let mut pos = 0usize; // values consumed so far
            let mut bad = None;
            while pos < stepped.len() {
                let k = rng.below(4) as usize;
                let Some(a) = g.nth(k) else { break };
                pos += k + 1;
                if pos > stepped.len() || a.json() != stepped[pos - 1] {
                    bad = Some((pos, k));
                    break;
                }
            }
            Some(bad)
        }));
        evals[i] += 1;
        match res {
            Ok(Some(Some((pos, k)))) => fails[i].push(format!(
                "gradual difficulty value #{pos} differs when it is reached by nth({k}) instead of stepping with next()"
            )),
            Ok(_) => {}
            Err(e) => fails[i].push(format!("panic while jumping through a gradual calculator: {}", panic_msg(e))),
        }
    }
    jobs.iter()
        .enumerate()
        .map(|(i, j)| {
            let sig = reference[i]
                .as_ref()
                .map_or(0, |r| fnv(&r.iter().map(|(_, s)| s.as_str()).collect::<Vec<_>>().join("|")));
            Obj::new()
                .raw("mode", j.target)
                .raw("src_mode", j.map.mode as u8)
                .str("shape", j.shape)
                .raw("n_objects", j.map.hit_objects.len())
                .raw("settings", j.st.json())
                .raw("spec", j.spec.json())
                .str("map", &j.text)
                .raw("evaluations", evals[i])
                .str("signature", &format!("{sig:016x}"))
                .raw("fails", arr(fails[i].iter().map(|s| crate::json::esc(s))))
                .done()
        })
        .collect()
}

pub fn main(cmd: &str, seed: u64, count: u64, max_objects: usize) {
    match cmd {
        "bpm" => {
            for k in 0..count {
                let mut rng = Rng::fork(seed ^ 0x62_706d, k);
                let line = bpm_case(&mut rng);
                println!("{{\"id\":{k},{}", &line[1..]);
            }
        }
        _ => {
            let group = 6;
            let mut id = 0;
            for g in 0..count.div_ceil(group as u64) {
                let mut rng = Rng::fork(seed ^ 0x64_6574, g);
                for line in det_group(&mut rng, max_objects, group) {
                    println!("{{\"id\":{id},{}", &line[1..]);
                    id += 1;
                }
            }
        }
    }
}
