//! Strain output vs ratings (M2; C16): every skill's exported peaks, the attributes they
//! explain, and the object times the section loop ran over.

use std::panic::{catch_unwind, AssertUnwindSafe};

use rosu_pp::{
    any::Strains,
    catch::Catch,
    mania::Mania,
    model::mode::IGameMode,
    osu::Osu,
    taiko::Taiko,
    Beatmap,
};

use crate::{
    canon::Canon,
    gen::{gen_any, GenOpts, Shape},
    grad::{clock_rate_of, mode_of, panic_msg},
    json::{arr, esc, Obj},
    rng::Rng,
    settings::gen_settings,
};

fn bits(v: &[f64]) -> String {
    arr(v.iter().map(|x| x.to_bits()))
}

pub fn case(rng: &mut Rng, max_objects: usize) -> String {
    // emphasise long breaks and negative start times
    let shape = match rng.below(6) {
        0 => Some(Shape::Sparse),
        1 => Some(Shape::NegativeTimes),
        _ => None,
    };
    let gm = gen_any(
        rng,
        &GenOpts {
            max_objects,
            shape,
            ..Default::default()
        },
    );
    let Ok(map) = Beatmap::from_bytes(gm.text.as_bytes()) else {
        return Obj::new().str("decode_error", "io").done();
    };
    let src_mode = map.mode as u8;
    let target = if src_mode == 0 && rng.chance(1, 2) {
        rng.below(4) as u8
    } else {
        src_mode
    };
    let mut st = gen_settings(rng, target);
    let total = map.hit_objects.len() as u32;
    if rng.chance(1, 3) {
        st.passed = Some(rng.below(u64::from(total) + 3) as u32);
    }
    let d = st.difficulty();
    let o = Obj::new()
        .raw("mode", target)
        .raw("src_mode", src_mode)
        .str("shape", gm.shape)
        .raw("settings", st.json())
        .raw("clock_rate", clock_rate_of(&st).to_bits())
        .raw("map", esc(&gm.text));

    let res = catch_unwind(AssertUnwindSafe(|| {
        let strains = match target {
            0 => Strains::Osu(d.strains_for_mode::<Osu>(&map).ok()?),
            1 => Strains::Taiko(d.strains_for_mode::<Taiko>(&map).ok()?),
            2 => Strains::Catch(d.strains_for_mode::<Catch>(&map).ok()?),
            _ => Strains::Mania(d.strains_for_mode::<Mania>(&map).ok()?),
        };
        let attrs = match target {
            0 => Osu::difficulty(&d, &map).ok()?.json(),
            1 => Taiko::difficulty(&d, &map).ok()?.json(),
            2 => Catch::difficulty(&d, &map).ok()?.json(),
            _ => Mania::difficulty(&d, &map).ok()?.json(),
        };
        let skills = match &strains {
            Strains::Osu(s) => vec![
                ("aim", bits(&s.aim)),
                ("aim_no_sliders", bits(&s.aim_no_sliders)),
                ("speed", bits(&s.speed)),
                ("flashlight", bits(&s.flashlight)),
            ],
            Strains::Taiko(s) => vec![
                ("color", bits(&s.color)),
                ("reading", bits(&s.reading)),
                ("rhythm", bits(&s.rhythm)),
                ("stamina", bits(&s.stamina)),
                ("single_color_stamina", bits(&s.single_color_stamina)),
            ],
            Strains::Catch(s) => vec![("movement", bits(&s.movement))],
            Strains::Mania(s) => vec![("strains", bits(&s.strains))],
        };
        // the converted map's object start times (what the section loop of osu!/mania sees)
        let conv = map
            .convert_ref(mode_of(target), &d.clone().inspect().mods)
            .ok()?;
        let times: Vec<u64> = conv
            .hit_objects
            .iter()
            .map(|h| h.start_time.to_bits())
            .collect();
        Some((skills, attrs, times, strains.section_len()))
    }));
    match res {
        Ok(Some((skills, attrs, times, section_len))) => o
            .raw(
                "skills",
                format!(
                    "{{{}}}",
                    skills
                        .iter()
                        .map(|(k, v)| format!("\"{k}\":{v}"))
                        .collect::<Vec<_>>()
                        .join(",")
                ),
            )
            .raw("attrs", attrs)
            .raw("times", arr(times))
            .f("section_len", section_len)
            .done(),
        Ok(None) => o.str("error", "convert").done(),
        Err(e) => o.str("panic", &panic_msg(e)).done(),
    }
}

pub fn main(seed: u64, count: u64, max_objects: usize) {
    for k in 0..count {
        let mut rng = Rng::fork(seed ^ 0x5717, k);
        let line = case(&mut rng, max_objects);
        println!("{{\"id\":{k},{}", &line[1..]);
    }
}
