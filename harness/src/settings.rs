//! G5: Difficulty settings (mods in several representations, clock rate, overrides).

use rosu_mods::{
    generated_mods::{DifficultyAdjustTaiko, HoldOffMania, InvertMania, MirrorCatch, MirrorOsu, RandomMania, RandomTaiko},
    GameMod, GameMods as GameModsLazer, GameModsIntermode, GameModsLegacy,
};
use rosu_pp::Difficulty;

use crate::{json::Obj, rng::Rng};

pub const NF: u32 = 1;
pub const EZ: u32 = 2;
pub const TD: u32 = 4;
pub const HD: u32 = 8;
pub const HR: u32 = 16;
pub const DT: u32 = 64;
pub const RX: u32 = 128;
pub const HT: u32 = 256;
pub const NC: u32 = 512 | 64;
pub const FL: u32 = 1024;
pub const SO: u32 = 4096;
pub const AP: u32 = 8192;
pub const KEYS: [u32; 9] = [
    1 << 26, // 1K
    1 << 28, // 2K
    1 << 27, // 3K
    1 << 15,
    1 << 16,
    1 << 17,
    1 << 18,
    1 << 19,
    1 << 24, // 9K
];
pub const MIRROR: u32 = 1 << 30;

#[derive(Clone, Debug, Default)]
pub struct Settings {
    pub bits: u32,
    /// 0 = legacy bits, 1 = GameModsLegacy, 2 = intermode owned, 3 = intermode borrowed, 4 = lazer
    pub repr: u8,
    /// extras that legacy bits cannot express: bit0 HoldOff, bit1 Invert, bit2 Random(seed) (mania/taiko,
    /// lazer representation), bit3 Classic, bit4 Blinds, bit5 Traceable (intermode and lazer
    /// representations), bit6 Mirror with a reflection setting (osu!, catch; lazer), bit7 taiko
    /// DifficultyAdjust scroll speed (lazer)
    pub lazer_extra: u8,
    pub seed: i32,
    pub mode: u8,
    pub clock_rate: Option<f64>,
    pub ar: Option<(f32, bool)>,
    pub cs: Option<(f32, bool)>,
    pub hp: Option<(f32, bool)>,
    pub od: Option<(f32, bool)>,
    pub hardrock_offsets: Option<bool>,
    pub lazer: Option<bool>,
    pub passed: Option<u32>,
}

impl Settings {
    pub fn intermode(&self) -> GameModsIntermode {
        let mut inter = GameModsIntermode::from_bits(self.bits);
        if self.lazer_extra & 8 != 0 {
            inter.insert(rosu_mods::GameModIntermode::Classic);
        }
        if self.lazer_extra & 16 != 0 && self.mode == 0 {
            inter.insert(rosu_mods::GameModIntermode::Blinds);
        }
        if self.lazer_extra & 32 != 0 && self.mode == 0 {
            inter.insert(rosu_mods::GameModIntermode::Traceable);
        }
        inter
    }

    pub fn lazer_mods(&self) -> GameModsLazer {
        let mode = match self.mode {
            0 => rosu_mods::GameMode::Osu,
            1 => rosu_mods::GameMode::Taiko,
            2 => rosu_mods::GameMode::Catch,
            _ => rosu_mods::GameMode::Mania,
        };
        let inter = self.intermode();
        let mut mods = GameModsLazer::from_intermode(&inter, mode);
        if self.lazer_extra & 1 != 0 && self.mode == 3 {
            mods.insert(GameMod::HoldOffMania(HoldOffMania {}));
        }
        if self.lazer_extra & 2 != 0 && self.mode == 3 {
            mods.insert(GameMod::InvertMania(InvertMania {}));
        }
        if self.lazer_extra & 64 != 0 {
            match self.mode {
                0 => mods.insert(GameMod::MirrorOsu(MirrorOsu {
                    reflection: match self.seed.rem_euclid(4) {
                        0 => None,
                        1 => Some("1".to_string()),
                        2 => Some("2".to_string()),
                        _ => Some("0".to_string()),
                    },
                })),
                2 => mods.insert(GameMod::MirrorCatch(MirrorCatch {})),
                _ => {}
            }
        }
        if self.lazer_extra & 128 != 0 && self.mode == 1 {
            mods.insert(GameMod::DifficultyAdjustTaiko(DifficultyAdjustTaiko {
                scroll_speed: Some(0.5 + f64::from(self.seed.rem_euclid(6)) * 0.5),
                ..Default::default()
            }));
        }
        if self.lazer_extra & 4 != 0 {
            match self.mode {
                // a negative seed stands for "no seed given": the mod is then ignored
                3 => mods.insert(GameMod::RandomMania(RandomMania {
                    seed: (self.seed >= 0).then(|| f64::from(self.seed)),
                })),
                1 => mods.insert(GameMod::RandomTaiko(RandomTaiko {
                    seed: (self.seed >= 0).then(|| f64::from(self.seed)),
                })),
                _ => {}
            }
        }
        mods
    }

    pub fn difficulty(&self) -> Difficulty {
        let mut d = Difficulty::new();
        d = match self.repr {
            0 => d.mods(self.bits),
            1 => d.mods(GameModsLegacy::from_bits(self.bits)),
            2 => d.mods(self.intermode()),
            3 => d.mods(&self.intermode()),
            _ => d.mods(self.lazer_mods()),
        };
        if let Some(cr) = self.clock_rate {
            d = d.clock_rate(cr);
        }
        if let Some((v, f)) = self.ar {
            d = d.ar(v, f);
        }
        if let Some((v, f)) = self.cs {
            d = d.cs(v, f);
        }
        if let Some((v, f)) = self.hp {
            d = d.hp(v, f);
        }
        if let Some((v, f)) = self.od {
            d = d.od(v, f);
        }
        if let Some(b) = self.hardrock_offsets {
            d = d.hardrock_offsets(b);
        }
        if let Some(b) = self.lazer {
            d = d.lazer(b);
        }
        if let Some(n) = self.passed {
            d = d.passed_objects(n);
        }
        d
    }

    pub fn json(&self) -> String {
        fn od(v: Option<(f32, bool)>) -> String {
            match v {
                Some((x, f)) => format!("[{},{}]", x.to_bits(), f),
                None => "null".to_string(),
            }
        }
        fn ob(v: Option<bool>) -> String {
            v.map_or("null".to_string(), |b| b.to_string())
        }
        Obj::new()
            .raw("bits", self.bits)
            .raw("repr", self.repr)
            .raw("lazer_extra", self.lazer_extra)
            .raw("seed", self.seed)
            .raw("mode", self.mode)
            .raw(
                "clock_rate",
                self.clock_rate
                    .map_or("null".to_string(), |c| c.to_bits().to_string()),
            )
            .raw("ar", od(self.ar))
            .raw("cs", od(self.cs))
            .raw("hp", od(self.hp))
            .raw("od", od(self.od))
            .raw("hardrock_offsets", ob(self.hardrock_offsets))
            .raw("lazer", ob(self.lazer))
            .raw(
                "passed",
                self.passed.map_or("null".to_string(), |n| n.to_string()),
            )
            .done()
    }
}

fn gen_override(rng: &mut Rng, lo: f32, hi: f32) -> Option<(f32, bool)> {
    if rng.chance(1, 5) {
        let v = (rng.f64_range(f64::from(lo), f64::from(hi)) * 10.0).round() / 10.0;
        Some((v as f32, rng.chance(1, 2)))
    } else {
        None
    }
}

/// Settings inside the ranges reachable in the game (clock rate [0.5, 2], AR/CS/OD/HP in [0, 11]).
pub fn gen_settings(rng: &mut Rng, mode: u8) -> Settings {
    let mut bits = 0;
    for &(m, num) in &[
        (NF, 1),
        (HD, 3),
        (FL, 3),
        (SO, 1),
        (TD, 1),
    ] {
        if rng.chance(num, 10) {
            bits |= m;
        }
    }
    match rng.below(5) {
        0 => bits |= HR,
        1 => bits |= EZ,
        _ => {}
    }
    match rng.below(8) {
        0 => bits |= DT,
        1 => bits |= HT,
        2 => bits |= NC,
        _ => {}
    }
    match rng.below(12) {
        0 => bits |= RX,
        1 => bits |= AP,
        _ => {}
    }
    if mode == 3 && rng.chance(1, 3) {
        bits |= *rng.pick(&KEYS);
    }
    if mode == 3 && rng.chance(1, 8) {
        bits |= MIRROR;
    }
    let repr = match rng.below(10) {
        0..=4 => 0,
        5 => 1,
        6 => 2,
        7 => 3,
        _ => 4,
    };
    let mut lazer_extra = if repr == 4 && (mode == 3 || mode == 1) && rng.chance(2, 3) {
        rng.below(8) as u8
    } else {
        0
    };
    // the Classic mod exists only outside the legacy bits
    if repr >= 2 && rng.chance(1, 4) {
        lazer_extra |= 8;
    }
    if repr >= 2 && mode == 0 && rng.chance(1, 5) {
        lazer_extra |= 16;
    }
    if repr >= 2 && mode == 0 && rng.chance(1, 5) {
        lazer_extra |= 32;
    }
    if repr == 4 && (mode == 0 || mode == 2) && rng.chance(1, 3) {
        lazer_extra |= 64;
    }
    if repr == 4 && mode == 1 && rng.chance(1, 3) {
        lazer_extra |= 128;
    }
    Settings {
        bits,
        repr,
        lazer_extra,
        seed: if rng.chance(1, 6) { -1 } else { rng.range(0, 100_000) as i32 },
        mode,
        clock_rate: if rng.chance(1, 4) {
            Some((rng.f64_range(0.5, 2.0) * 100.0).round() / 100.0)
        } else {
            None
        },
        ar: gen_override(rng, 0.0, 11.0),
        cs: gen_override(rng, 0.0, 11.0),
        hp: gen_override(rng, 0.0, 11.0),
        od: gen_override(rng, 0.0, 11.0),
        hardrock_offsets: if rng.chance(if mode == 2 { 3 } else { 1 }, 10) {
            Some(rng.chance(1, 2))
        } else {
            None
        },
        lazer: if rng.chance(1, 3) {
            Some(rng.chance(1, 2))
        } else {
            None
        },
        passed: None,
    }
}
