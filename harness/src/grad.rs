//! Gradual difficulty vs one-shot difficulty (M3; C02, C14, C15).

use std::panic::{catch_unwind, AssertUnwindSafe};

use rosu_pp::{
    catch::{Catch, CatchGradualDifficulty},
    mania::{Mania, ManiaGradualDifficulty},
    model::mode::{GameMode, IGameMode},
    osu::{Osu, OsuGradualDifficulty},
    taiko::{Taiko, TaikoGradualDifficulty},
    Beatmap, Difficulty,
};

use crate::{
    canon::Canon,
    gen::{gen_any, GenOpts},
    json::{arr, esc, Obj},
    rng::Rng,
    settings::{gen_settings, Settings},
};

pub fn panic_msg(e: Box<dyn std::any::Any + Send>) -> String {
    if let Some(s) = e.downcast_ref::<&str>() {
        (*s).to_string()
    } else if let Some(s) = e.downcast_ref::<String>() {
        s.clone()
    } else {
        "panic".to_string()
    }
}

pub fn mode_of(m: u8) -> GameMode {
    match m {
        0 => GameMode::Osu,
        1 => GameMode::Taiko,
        2 => GameMode::Catch,
        _ => GameMode::Mania,
    }
}

#[derive(Clone, Debug)]
pub enum GOp {
    Next,
    Nth(u64),
    Len,
}

pub fn gen_ops(rng: &mut Rng, total: u64) -> Vec<GOp> {
    let n_ops = 1 + rng.below(total + 4);
    let mut ops = Vec::new();
    for _ in 0..n_ops.min(40) {
        ops.push(match rng.below(10) {
            0..=3 => GOp::Next,
            4..=6 => GOp::Nth(match rng.below(8) {
                0 => 0,
                1 => 1,
                2 => 2,
                3 => rng.below(total + 3),
                4 => total,
                5 => total.saturating_sub(1),
                6 => u64::MAX,
                _ => rng.below(5),
            }),
            _ => GOp::Len,
        });
    }
    ops
}

fn ops_json(ops: &[GOp]) -> String {
    arr(ops.iter().map(|o| match o {
        GOp::Next => "[\"next\"]".to_string(),
        GOp::Nth(k) => format!("[\"nth\",{k}]"),
        GOp::Len => "[\"len\"]".to_string(),
    }))
}

/// `len()` of the iterator, u64::MAX - 7 if `size_hint()` disagrees with it (recorded as a length no
/// reference iterator can have, so every comparison downstream fails and names the call)
fn checked_len<G: ExactSizeIterator>(g: &G) -> u64 {
    let l = g.len();
    if g.size_hint() == (l, Some(l)) {
        l as u64
    } else {
        u64::MAX - 7
    }
}

fn run_mode<G, A>(
    mk: &dyn Fn() -> Option<G>,
    oneshot: &dyn Fn(Option<u32>) -> A,
    total: u64,
    rng: &mut Rng,
) -> String
where
    G: ExactSizeIterator<Item = A>,
    A: Canon,
{
    let mut o = Obj::new().raw("total", total);

    // one-shot for every prefix
    let shots = catch_unwind(AssertUnwindSafe(|| {
        let mut v = Vec::new();
        for n in 0..=(total + 2) {
            v.push(oneshot(Some(n as u32)).json());
        }
        (v, oneshot(None).json())
    }));
    match shots {
        Ok((v, full)) => {
            o = o.raw("oneshot", arr(v)).raw("full", full);
        }
        Err(e) => return o.str("panic_oneshot", &panic_msg(e)).done(),
    }

    // plain iteration
    let plain = catch_unwind(AssertUnwindSafe(|| {
        let mut g = mk()?;
        let len0 = checked_len(&g);
        let mut vals = Vec::new();
        let mut lens = Vec::new();
        // guard: a wrapped `len` must not make us loop forever
        while let Some(a) = g.next() {
            vals.push(a.json());
            lens.push(checked_len(&g));
            if vals.len() as u64 > total + 8 {
                break;
            }
        }
        // after exhaustion: further calls must keep returning None
        let after = [g.next().is_none(), g.nth(0).is_none(), g.next().is_none()];
        let len_end = checked_len(&g);
        Some((len0, vals, lens, after, len_end))
    }));
    match plain {
        Ok(Some((len0, vals, lens, after, len_end))) => {
            o = o
                .raw("len0", len0)
                .raw("vals", arr(vals))
                .raw("lens", arr(lens))
                .raw("after", arr(after))
                .raw("len_end", len_end);
        }
        Ok(None) => return o.str("error", "constructor failed").done(),
        Err(e) => o = o.str("panic_plain", &panic_msg(e)),
    }

    // op sequences
    let mut seqs = Vec::new();
    for _ in 0..3 {
        let ops = gen_ops(rng, total);
        let res = catch_unwind(AssertUnwindSafe(|| {
            let mut g = mk()?;
            let mut outs = Vec::new();
            for op in &ops {
                outs.push(match op {
                    GOp::Next => g.next().map_or("null".to_string(), |a| a.json()),
                    GOp::Nth(k) => g
                        .nth(usize::try_from(*k).unwrap_or(usize::MAX))
                        .map_or("null".to_string(), |a| a.json()),
                    GOp::Len => checked_len(&g).to_string(),
                });
            }
            Some(outs)
        }));
        let s = Obj::new().raw("ops", ops_json(&ops));
        seqs.push(match res {
            Ok(Some(outs)) => s.raw("outs", arr(outs)).done(),
            Ok(None) => s.str("error", "constructor failed").done(),
            Err(e) => s.str("panic", &panic_msg(e)).done(),
        });
    }
    o.raw("seqs", arr(seqs)).done()
}

pub fn view_json(mode: u8, d: &Difficulty, map: &Beatmap) -> (String, u64) {
    match mode {
        0 => {
            let v = rosu_pp::verif::osu::object_summary(d, map);
            let n = v.len() as u64;
            (
                arr(v.iter().map(|(k, a, b)| format!("[{k},{a},{b}]"))),
                n,
            )
        }
        1 => {
            let v = rosu_pp::verif::taiko::hit_flags(d, map).unwrap_or_default();
            let hits = v.iter().filter(|b| **b).count() as u64;
            (arr(v.iter().map(|b| u8::from(*b))), hits)
        }
        2 => {
            let (ev, n_palpable) = rosu_pp::verif::catch::record_events(d, map);
            let n = ev.len() as u64;
            // counted from the map itself, independently of the juice-stream code: every circle,
            // and per slider its head, one fruit per repeat, and its tail
            let expect_fruits: u64 = map
                .hit_objects
                .iter()
                .map(|h| match &h.kind {
                    rosu_pp::model::hit_object::HitObjectKind::Circle => 1,
                    rosu_pp::model::hit_object::HitObjectKind::Slider(s) => s.repeats as u64 + 2,
                    _ => 0,
                })
                .sum();
            (
                format!(
                    "{{\"events\":{},\"n_palpable\":{n_palpable},\"expect_fruits\":{expect_fruits}}}",
                    arr(ev.iter().map(|(f, t)| format!("[{},{t}]", u8::from(*f))))
                ),
                n,
            )
        }
        _ => {
            let v = rosu_pp::verif::mania::object_spans(d, map).unwrap_or_default();
            let n = v.len() as u64;
            (
                arr(v
                    .iter()
                    .map(|(c, s, e, k)| format!("[{},{},{},{k}]", u8::from(*c), s.to_bits(), e.to_bits()))),
                n,
            )
        }
    }
}

pub fn case(rng: &mut Rng, max_objects: usize) -> String {
    // now and then a catch map of small fruits alternating between two positions (the movement
    // skill's back-and-forth detector depends on the catcher width, hence on CS)
    let buzz = rng.chance(1, 10);
    let gm = gen_any(
        rng,
        &GenOpts {
            max_objects,
            mode: if buzz { Some(2) } else { None },
            shape: if buzz { Some(crate::gen::Shape::Buzz) } else { None },
            ..Default::default()
        },
    );
    let map = match Beatmap::from_bytes(gm.text.as_bytes()) {
        Ok(m) => m,
        Err(e) => {
            return Obj::new()
                .str("map", &gm.text)
                .str("decode_error", &e.to_string())
                .done()
        }
    };
    let src_mode = map.mode as u8;
    let target = if src_mode == 0 && rng.chance(1, 2) {
        rng.below(4) as u8
    } else {
        src_mode
    };
    let st: Settings = gen_settings(rng, target);
    let d = st.difficulty();

    // the map as the target mode sees it
    let conv = match map.convert_ref(mode_of(target), &st.difficulty().inspect().mods) {
        Ok(c) => c.into_owned(),
        Err(e) => {
            return Obj::new()
                .str("map", &gm.text)
                .str("convert_error", &format!("{e:?}"))
                .done()
        }
    };
    let view = catch_unwind(AssertUnwindSafe(|| view_json(target, &d, &conv)));
    let (view, total) = match view {
        Ok(v) => v,
        Err(e) => {
            return Obj::new()
                .str("map", &gm.text)
                .raw("settings", st.json())
                .raw("mode", target)
                .str("panic_view", &panic_msg(e))
                .done()
        }
    };

    let body = match target {
        0 => run_mode(
            &|| OsuGradualDifficulty::new(d.clone(), &map).ok(),
            &|n| oneshot::<Osu>(&d, n, &map),
            total,
            rng,
        ),
        1 => run_mode(
            &|| TaikoGradualDifficulty::new(d.clone(), &map).ok(),
            &|n| oneshot::<Taiko>(&d, n, &map),
            total,
            rng,
        ),
        2 => run_mode(
            &|| CatchGradualDifficulty::new(d.clone(), &map).ok(),
            &|n| oneshot::<Catch>(&d, n, &map),
            total,
            rng,
        ),
        _ => run_mode(
            &|| ManiaGradualDifficulty::new(d.clone(), &map).ok(),
            &|n| oneshot::<Mania>(&d, n, &map),
            total,
            rng,
        ),
    };

    // the mode-agnostic wrapper (next / nth / len / size_hint dispatch) against the mode's own calculator
    let ops = gen_ops(rng, total);
    let wrapper_eq = catch_unwind(AssertUnwindSafe(|| {
        let mut any = rosu_pp::GradualDifficulty::new_with_mode(d.clone(), &map, mode_of(target)).ok()?;
        macro_rules! specific {
            ($t:ty, $variant:ident) => {{
                let mut g = <$t>::new(d.clone(), &map).ok()?;
                let mut same = true;
                for op in &ops {
                    match op {
                        GOp::Next => {
                            let a = any.next().map(|x| match x {
                                rosu_pp::any::DifficultyAttributes::$variant(v) => v.json(),
                                _ => String::from("wrong variant"),
                            });
                            same &= a == g.next().map(|v| v.json());
                        }
                        GOp::Nth(k) => {
                            let k = usize::try_from(*k).unwrap_or(usize::MAX);
                            let a = any.nth(k).map(|x| match x {
                                rosu_pp::any::DifficultyAttributes::$variant(v) => v.json(),
                                _ => String::from("wrong variant"),
                            });
                            same &= a == g.nth(k).map(|v| v.json());
                        }
                        GOp::Len => {
                            same &= any.len() == g.len() && any.size_hint() == g.size_hint();
                        }
                    }
                }
                Some(same)
            }};
        }
        match target {
            0 => specific!(OsuGradualDifficulty, Osu),
            1 => specific!(TaikoGradualDifficulty, Taiko),
            2 => specific!(CatchGradualDifficulty, Catch),
            _ => specific!(ManiaGradualDifficulty, Mania),
        }
    }));
    let body = match wrapper_eq {
        Ok(Some(eq)) => format!("{{\"wrapper_eq\":{eq},\"wrapper_ops\":{},{}", ops_json(&ops), &body[1..]),
        Ok(None) => body,
        Err(e) => format!("{{\"panic_wrapper\":{},{}", esc(&panic_msg(e)), &body[1..]),
    };

    // a Difficulty that already carries passed_objects(k): whatever the calculator announces, it
    // yields that many values, len counts down, and value i is the one-shot passed_objects(i)
    let body = if rng.chance(1, 2) {
        let k = match rng.below(4) {
            0 => 0,
            1 => rng.below(4),
            2 => total + rng.below(3),
            _ => rng.below(total + 1),
        } as u32;
        let d2 = d.clone().passed_objects(k);
        let res = catch_unwind(AssertUnwindSafe(|| {
            let mut g = rosu_pp::GradualDifficulty::new_with_mode(d2.clone(), &map, mode_of(target)).ok()?;
            let len0 = checked_len(&g);
            let mut n = 0u64;
            let mut bad_len = None;
            let mut bad_val = None;
            while let Some(a) = g.next() {
                n += 1;
                let want = match target {
                    0 => oneshot::<Osu>(&d2, Some(n as u32), &map).json(),
                    1 => oneshot::<Taiko>(&d2, Some(n as u32), &map).json(),
                    2 => oneshot::<Catch>(&d2, Some(n as u32), &map).json(),
                    _ => oneshot::<Mania>(&d2, Some(n as u32), &map).json(),
                };
                let got = match a {
                    rosu_pp::any::DifficultyAttributes::Osu(v) => v.json(),
                    rosu_pp::any::DifficultyAttributes::Taiko(v) => v.json(),
                    rosu_pp::any::DifficultyAttributes::Catch(v) => v.json(),
                    rosu_pp::any::DifficultyAttributes::Mania(v) => v.json(),
                };
                if got != want && bad_val.is_none() {
                    bad_val = Some(n);
                }
                if checked_len(&g) + n != len0 && bad_len.is_none() {
                    bad_len = Some(n);
                }
                if n > total + 8 {
                    break;
                }
            }
            let after = g.next().is_none() && g.nth(0).is_none();
            Some(format!(
                "{{\"k\":{k},\"len0\":{len0},\"n\":{n},\"bad_len\":{},\"bad_val\":{},\"after_none\":{after}}}",
                bad_len.map_or("null".to_string(), |x| x.to_string()),
                bad_val.map_or("null".to_string(), |x| x.to_string())
            ))
        }));
        match res {
            Ok(Some(p)) => format!("{{\"preset\":{p},{}", &body[1..]),
            Ok(None) => body,
            Err(e) => format!("{{\"preset\":{{\"k\":{k},\"panic\":{}}},{}", esc(&panic_msg(e)), &body[1..]),
        }
    } else {
        body
    };

    format!(
        "{{\"mode\":{target},\"src_mode\":{src_mode},\"shape\":{},\"n_objects\":{},\"clock_rate\":{},\"settings\":{},\"view\":{},\"map\":{},{}",
        esc(gm.shape),
        conv.hit_objects.len(),
        st.difficulty().inspect().clock_rate.map_or_else(
            || clock_rate_of(&st).to_bits(),
            f64::to_bits
        ),
        st.json(),
        view,
        esc(&gm.text),
        &body[1..]
    )
}

/// The effective clock rate (mods' rate unless overridden).
pub fn clock_rate_of(st: &Settings) -> f64 {
    if let Some(c) = st.clock_rate {
        return c.clamp(0.01, 100.0);
    }
    if st.bits & 64 != 0 {
        1.5
    } else if st.bits & 256 != 0 {
        0.75
    } else {
        1.0
    }
}

fn oneshot<M: IGameMode>(d: &Difficulty, n: Option<u32>, map: &Beatmap) -> M::DifficultyAttributes {
    let d = match n {
        Some(n) => d.clone().passed_objects(n),
        None => d.clone(),
    };
    d.calculate_for_mode::<M>(map).expect("convertible")
}

pub fn main(seed: u64, count: u64, max_objects: usize) {
    for k in 0..count {
        let mut rng = Rng::fork(seed, k);
        let line = case(&mut rng, max_objects);
        println!("{{\"id\":{k},{}", &line[1..]);
    }
}
