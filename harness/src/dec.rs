//! Decoding (C06): traces for the Coq model of the [TimingPoints] bookkeeping and of the
//! tandem sort, and the direct well-formedness oracle on arbitrary byte strings.

use std::{
    fmt::Write as _,
    panic::{catch_unwind, AssertUnwindSafe},
};

use rosu_pp::{
    model::{hit_object::HitObjectKind, mode::GameMode},
    Beatmap,
};

use crate::{
    gen::{gen_any, shipped_text, GenOpts},
    grad::panic_msg,
    json::{arr, esc, Obj},
    rng::Rng,
};

// ------------------------------------------------------------------------------ timing lines

fn pick_time(rng: &mut Rng, base: f64) -> f64 {
    match rng.below(12) {
        0 => 0.0,
        1 => -0.0,
        2 => base,
        3 => base + 1e-13, // within EPSILON of the pending time? (only near 0)
        4 => -500.0,
        5 => base - 250.0,
        6 => base + 0.5,
        _ => base + (rng.below(8) as f64) * 250.0,
    }
}

fn pick_beat(rng: &mut Rng, uninherited: bool) -> f64 {
    if uninherited {
        *rng.pick(&[500.0, 250.0, 333.333, 1.0, 100000.0, 6.0, 60000.0, 375.5])
    } else {
        *rng.pick(&[-100.0, -50.0, -200.0, -1.0, -100000.0, -0.5, -133.33, -100.00000000000001, 100.0])
    }
}

pub fn timing_case(rng: &mut Rng) -> String {
    let mode = rng.below(4) as u8;
    let n = rng.below(9);
    let mut lines = Vec::new();
    let mut text = format!("osu file format v14\n\n[General]\nMode: {mode}\n\n[TimingPoints]\n");
    let mut base = 0.0;
    for _ in 0..n {
        let time = pick_time(rng, base);
        if rng.chance(2, 3) {
            base = time.max(base) + 250.0 * (rng.below(3) as f64);
        }
        let uninh = rng.chance(1, 2);
        // special tokens on inherited lines: NaN in every spelling `str::parse::<f64>` accepts (a
        // leading minus sets the sign bit of the NaN), and the two zeros
        let special = if !uninh && rng.chance(1, 8) {
            Some(*rng.pick(&["NaN", "nan", "-NaN", "-nan", "+NaN", "-0", "0", "-0.0", "NaN"]))
        } else {
            None
        };
        let beat = match special {
            Some(tok) => tok.parse::<f64>().expect("parsable special token"),
            None => pick_beat(rng, uninh),
        };
        let kiai = rng.chance(1, 3);
        let beat_s = match special {
            Some(tok) => tok.to_string(),
            None => format!("{beat}"),
        };
        writeln!(text, "{time},{beat_s},4,2,0,60,{},{}", u8::from(uninh), u8::from(kiai)).unwrap();
        lines.push(format!(
            "[{},{},{},{}]",
            time.to_bits(),
            beat.to_bits(),
            uninh,
            kiai
        ));
    }
    let o = Obj::new().raw("mode", mode).raw("lines", arr(lines)).str("map", &text);
    match catch_unwind(AssertUnwindSafe(|| Beatmap::from_bytes(text.as_bytes()))) {
        Ok(Ok(map)) => o
            .raw(
                "tps",
                arr(map.timing_points.iter().flat_map(|p| [p.time.to_bits(), p.beat_len.to_bits()])),
            )
            .raw(
                "dps",
                arr(map.difficulty_points.iter().flat_map(|p| {
                    [
                        p.time.to_bits(),
                        p.slider_velocity.to_bits(),
                        p.bpm_multiplier.to_bits(),
                        u64::from(p.generate_ticks),
                    ]
                })),
            )
            .raw(
                "eps",
                arr(map
                    .effect_points
                    .iter()
                    .flat_map(|p| [p.time.to_bits(), u64::from(p.kiai), p.scroll_speed.to_bits()])),
            )
            .raw("fails", arr(invariants(&map, None).iter().map(|s| esc(s))))
            .done(),
        Ok(Err(e)) => o.str("error", &e.to_string()).done(),
        Err(e) => o.str("panic", &panic_msg(e)).done(),
    }
}

// ------------------------------------------------------------------------------ object lines

pub fn objects_case(rng: &mut Rng) -> String {
    let mode = rng.below(3) as u8; // osu, taiko, catch: the sound stays with its line
    let n = rng.below(14);
    let mut text = format!("osu file format v14\n\n[General]\nMode: {mode}\n\n[TimingPoints]\n0,500,4,2,0,60,1,0\n\n[HitObjects]\n");
    let mut lines = Vec::new();
    let mut t = 1000.0;
    for k in 0..n {
        let time: f64 = match rng.below(8) {
            0 => t,
            1 => t - 500.0,
            2 => 0.0,
            3 => -0.0,
            4 => -250.0,
            _ => {
                t += 250.0;
                t
            }
        };
        // distinct sounds identify the line: 4 bits (normal, whistle, finish, clap)
        let sound = (k % 16) as u8;
        writeln!(text, "{},192,{time},1,{sound},0:0:0:0:", 32 * (k % 16)).unwrap();
        lines.push(format!("[{},{sound}]", time.to_bits()));
    }
    let o = Obj::new().raw("mode", mode).raw("lines", arr(lines)).str("map", &text);
    match catch_unwind(AssertUnwindSafe(|| Beatmap::from_bytes(text.as_bytes()))) {
        Ok(Ok(map)) => o
            .raw(
                "decoded",
                arr(map
                    .hit_objects
                    .iter()
                    .zip(map.hit_sounds.iter())
                    .map(|(h, s)| format!("[{},{}]", h.start_time.to_bits(), u8::from(*s)))),
            )
            .raw("fails", arr(invariants(&map, None).iter().map(|s| esc(s))))
            .done(),
        Ok(Err(e)) => o.str("error", &e.to_string()).done(),
        Err(e) => o.str("panic", &panic_msg(e)).done(),
    }
}

// ------------------------------------------------------------------------------ invariants

fn strictly_increasing(times: impl Iterator<Item = f64>) -> Option<(f64, f64)> {
    let mut prev: Option<f64> = None;
    for t in times {
        if let Some(p) = prev {
            // strictly by IEEE `<` (a NaN or two equal times are a failure)
            if !(p < t) {
                return Some((p, t));
            }
        }
        prev = Some(t);
    }
    None
}

/// Well-formedness of a decoded map (C06); `converted_from`: extra checks for C19.
pub fn invariants(map: &Beatmap, converted_from: Option<&Beatmap>) -> Vec<String> {
    let mut f = Vec::new();
    // a mania convert clears the hit sounds by design
    let mania_convert = converted_from.is_some() && map.mode == GameMode::Mania;
    if !mania_convert && map.hit_sounds.len() != map.hit_objects.len() {
        f.push(format!("{} hit sounds for {} objects", map.hit_sounds.len(), map.hit_objects.len()));
    }
    for w in map.hit_objects.windows(2) {
        if !(w[0].start_time <= w[1].start_time) {
            f.push(format!("objects out of order: {} before {}", w[0].start_time, w[1].start_time));
            break;
        }
    }
    for (name, bad) in [
        ("timing", strictly_increasing(map.timing_points.iter().map(|p| p.time))),
        ("difficulty", strictly_increasing(map.difficulty_points.iter().map(|p| p.time))),
        ("effect", strictly_increasing(map.effect_points.iter().map(|p| p.time))),
    ] {
        if let Some((a, b)) = bad {
            f.push(format!("{name} points not strictly ordered by time: {a:?} then {b:?}"));
        }
    }
    let fin = |name: &str, x: f64, lo: f64, hi: f64, f: &mut Vec<String>| {
        if !x.is_finite() || x < lo || x > hi {
            f.push(format!("{name} = {x} outside [{lo}, {hi}]"));
        }
    };
    fin("ar", f64::from(map.ar), 0.0, 10.0, &mut f);
    fin("od", f64::from(map.od), 0.0, 10.0, &mut f);
    fin("hp", f64::from(map.hp), 0.0, 10.0, &mut f);
    if map.mode == GameMode::Mania && converted_from.is_none() {
        fin("cs (mania)", f64::from(map.cs), 1.0, 18.0, &mut f);
    } else if converted_from.is_none() {
        fin("cs", f64::from(map.cs), 0.0, 10.0, &mut f);
    }
    fin("slider_multiplier", map.slider_multiplier, 0.4, 3.6, &mut f);
    fin("slider_tick_rate", map.slider_tick_rate, 0.5, 8.0, &mut f);
    fin("stack_leniency", f64::from(map.stack_leniency), f64::MIN, f64::MAX, &mut f);
    for p in &map.timing_points {
        fin("timing point time", p.time, f64::MIN, f64::MAX, &mut f);
        fin("beat_len", p.beat_len, 6.0, 60_000.0, &mut f);
    }
    for p in &map.difficulty_points {
        fin("difficulty point time", p.time, f64::MIN, f64::MAX, &mut f);
        fin("slider_velocity", p.slider_velocity, 0.1, 10.0, &mut f);
        fin("bpm_multiplier", p.bpm_multiplier, 0.1, 100.0, &mut f);
    }
    for p in &map.effect_points {
        fin("effect point time", p.time, f64::MIN, f64::MAX, &mut f);
        fin("scroll_speed", p.scroll_speed, 0.01, 10.0, &mut f);
    }
    for b in &map.breaks {
        fin("break start", b.start_time, f64::MIN, f64::MAX, &mut f);
        fin("break end", b.end_time, f64::MIN, f64::MAX, &mut f);
    }
    for h in &map.hit_objects {
        fin("start_time", h.start_time, f64::MIN, f64::MAX, &mut f);
        fin("pos.x", f64::from(h.pos.x), f64::MIN, f64::MAX, &mut f);
        fin("pos.y", f64::from(h.pos.y), f64::MIN, f64::MAX, &mut f);
        match &h.kind {
            HitObjectKind::Circle => {}
            HitObjectKind::Slider(s) => {
                if let Some(d) = s.expected_dist {
                    fin("slider length", d, 0.0, f64::MAX, &mut f);
                }
                if s.node_sounds.len() != s.repeats + 2 {
                    f.push(format!("slider with {} repeats has {} node sounds", s.repeats, s.node_sounds.len()));
                }
                for cp in s.control_points.iter() {
                    fin("control point x", f64::from(cp.pos.x), f64::MIN, f64::MAX, &mut f);
                    fin("control point y", f64::from(cp.pos.y), f64::MIN, f64::MAX, &mut f);
                }
            }
            HitObjectKind::Spinner(s) => fin("spinner duration", s.duration, 0.0, f64::MAX, &mut f),
            HitObjectKind::Hold(s) => fin("hold duration", s.duration, 0.0, f64::MAX, &mut f),
        }
        if f.len() > 6 {
            break;
        }
    }
    f.truncate(6);
    f
}

// ------------------------------------------------------------------------------ arbitrary bytes

fn corrupt(rng: &mut Rng, text: &str) -> Vec<u8> {
    let mut lines: Vec<String> = text.lines().map(str::to_string).collect();
    let limits = [
        "2147483647", "-2147483648", "2147483648", "1e308", "-1e308", "1e999", "NaN", "nan", "-NaN", "-nan", "+nan", "inf", "-inf", "+inf", "Infinity",
        "0x10", "", " ", "1e-320", "131072", "-131072", "9999999999999999999999", "1,1", "-0", "+5", "5.", ".5",
    ];
    for _ in 0..1 + rng.below(6) {
        if lines.is_empty() {
            break;
        }
        let i = rng.below(lines.len() as u64) as usize;
        match rng.below(8) {
            0 => {
                let l = lines[i].clone();
                lines.insert(i, l);
            }
            1 => {
                lines.remove(i);
            }
            2 => {
                let j = rng.below(lines.len() as u64) as usize;
                lines.swap(i, j);
            }
            3 => lines.truncate(i + 1),
            4 | 5 => {
                // replace one comma/colon separated field by a parser-limit value
                let sep = if lines[i].contains(',') { ',' } else { ':' };
                let mut parts: Vec<String> = lines[i].split(sep).map(str::to_string).collect();
                let k = rng.below(parts.len() as u64) as usize;
                parts[k] = (*rng.pick(&limits)).to_string();
                lines[i] = parts.join(&sep.to_string());
            }
            6 => {
                let cut = rng.below(lines[i].len() as u64 + 1) as usize;
                let mut c = cut;
                while !lines[i].is_char_boundary(c) {
                    c -= 1;
                }
                lines[i].truncate(c);
            }
            _ => lines[i] = format!("[{}]", rng.pick(&["HitObjects", "TimingPoints", "Difficulty", "General", "Events", "Nope"])),
        }
    }
    let mut bytes = lines.join(if rng.chance(1, 4) { "\r\n" } else { "\n" }).into_bytes();
    match rng.below(10) {
        0 => {
            // byte noise
            for _ in 0..1 + rng.below(8) {
                if !bytes.is_empty() {
                    let i = rng.below(bytes.len() as u64) as usize;
                    bytes[i] = rng.below(256) as u8;
                }
            }
        }
        1 => {
            // UTF-16 LE with BOM
            let s = String::from_utf8_lossy(&bytes).to_string();
            bytes = vec![0xFF, 0xFE];
            for u in s.encode_utf16() {
                bytes.extend(u.to_le_bytes());
            }
        }
        2 => {
            let mut b = vec![0xEF, 0xBB, 0xBF];
            b.extend(bytes);
            bytes = b;
        }
        3 => {
            // UTF-16 BE with BOM
            let s = String::from_utf8_lossy(&bytes).to_string();
            bytes = vec![0xFE, 0xFF];
            for u in s.encode_utf16() {
                bytes.extend(u.to_be_bytes());
            }
        }
        _ => {}
    }
    bytes
}

pub fn corrupt_pub(rng: &mut Rng, text: &str) -> Vec<u8> {
    corrupt(rng, text)
}

pub fn bytes_case(rng: &mut Rng, k: u64) -> String {
    let (kind, bytes): (&str, Vec<u8>) = match rng.below(10) {
        0 => ("noise", (0..rng.below(400)).map(|_| rng.below(256) as u8).collect()),
        1 | 2 => {
            let name = *rng.pick(&["2785319.osu", "1028484.osu", "2118524.osu", "1638954.osu"]);
            ("corrupted-shipped", corrupt(rng, &shipped_text(name)))
        }
        3..=6 => {
            let gm = gen_any(rng, &GenOpts { max_objects: 25, ..Default::default() });
            ("corrupted-generated", corrupt(rng, &gm.text))
        }
        _ => {
            let gm = gen_any(rng, &GenOpts { max_objects: 25, ..Default::default() });
            ("valid", gm.text.into_bytes())
        }
    };
    let o = Obj::new().str("kind", kind).raw("len", bytes.len()).str(
        "bytes_hex",
        &bytes.iter().take(6000).map(|b| format!("{b:02x}")).collect::<String>(),
    );
    let res = catch_unwind(AssertUnwindSafe(|| {
        let mut fails = Vec::new();
        let from_bytes = Beatmap::from_bytes(&bytes);
        // the same content as a string and through a file
        if let Ok(s) = std::str::from_utf8(&bytes) {
            let from_str: Result<Beatmap, _> = s.parse();
            match (&from_bytes, &from_str) {
                (Ok(a), Ok(b)) if a != b => fails.push("from_bytes and from_str give different maps".to_string()),
                (Ok(_), Err(e)) | (Err(e), Ok(_)) => fails.push(format!("from_bytes / from_str disagree: {e}")),
                _ => {}
            }
        }
        if k % 8 == 0 {
            let dir = std::env::temp_dir().join(format!("vh-dec-{}-{k}.osu", std::process::id()));
            if std::fs::write(&dir, &bytes).is_ok() {
                let from_path = Beatmap::from_path(&dir);
                let _ = std::fs::remove_file(&dir);
                match (&from_bytes, &from_path) {
                    (Ok(a), Ok(b)) if a != b => fails.push("from_bytes and from_path give different maps".to_string()),
                    (Ok(_), Err(e)) | (Err(e), Ok(_)) => fails.push(format!("from_bytes / from_path disagree: {e}")),
                    _ => {}
                }
            }
        }
        match &from_bytes {
            Ok(map) => {
                fails.extend(invariants(map, None));
                (fails, "ok".to_string(), map.hit_objects.len(), map.mode as u8)
            }
            Err(e) => (fails, format!("io error: {:?}", e.kind()), 0, 0),
        }
    }));
    match res {
        Ok((fails, outcome, n, mode)) => o
            .str("outcome", &outcome)
            .raw("n_objects", n)
            .raw("mode", mode)
            .raw("fails", arr(fails.iter().map(|s| esc(s))))
            .done(),
        Err(e) => o.str("panic", &panic_msg(e)).done(),
    }
}

pub fn main(seed: u64, n_timing: u64, n_objects: u64, n_bytes: u64) {
    for k in 0..n_timing {
        let mut rng = Rng::fork(seed ^ 0x74_696d, k);
        let line = timing_case(&mut rng);
        println!("{{\"id\":{k},\"case\":\"timing\",{}", &line[1..]);
    }
    for k in 0..n_objects {
        let mut rng = Rng::fork(seed ^ 0x6f_626a, k);
        let line = objects_case(&mut rng);
        println!("{{\"id\":{k},\"case\":\"objects\",{}", &line[1..]);
    }
    for k in 0..n_bytes {
        let mut rng = Rng::fork(seed ^ 0x62_7974, k);
        let line = bytes_case(&mut rng, k);
        println!("{{\"id\":{k},\"case\":\"bytes\",{}", &line[1..]);
    }
}
