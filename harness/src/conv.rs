//! Converted maps (C19): structural invariants of every conversion of osu!standard maps and
//! traces for the Coq models of `target_columns` and `ManiaObject::column`.

use std::panic::{catch_unwind, AssertUnwindSafe};

use rosu_mods::{GameModIntermode, GameModsIntermode};
use rosu_pp::{
    model::{hit_object::HitObjectKind, mode::GameMode},
    Beatmap, Difficulty,
};

use crate::{
    dec::invariants,
    gen::{gen_any, GenOpts},
    grad::{mode_of, panic_msg},
    json::{arr, esc, Obj},
    rng::Rng,
    settings::KEYS,
};

fn key_mods(rng: &mut Rng) -> (Option<u32>, rosu_pp::model::mods::GameMods, String) {
    if rng.chance(1, 6) {
        // 8K is the only key count with a special column
        return (Some(8), Difficulty::new().mods(KEYS[7]).inspect().mods, "8K (legacy bits)".to_string());
    }
    match rng.below(12) {
        0..=8 => {
            let i = rng.below(9) as usize;
            let keys = [1, 2, 3, 4, 5, 6, 7, 8, 9][i];
            let d = Difficulty::new().mods(KEYS[i]).inspect();
            (Some(keys), d.mods, format!("{keys}K (legacy bits)"))
        }
        9 => {
            let mut m = GameModsIntermode::new();
            m.insert(GameModIntermode::TenKeys);
            (Some(10), Difficulty::new().mods(m).inspect().mods, "10K (intermode)".to_string())
        }
        _ => (None, Difficulty::new().inspect().mods, "no key mod".to_string()),
    }
}

/// Inherited timing lines (slider-velocity changes, kiai toggles) exactly at the start times of
/// some sliders: the taiko conversion adds effect points at those times.
fn add_green_lines_at_sliders(text: &str, rng: &mut Rng) -> String {
    let Some(tp) = text.find("[TimingPoints]") else {
        return text.to_string();
    };
    let Some(ho) = text.find("[HitObjects]") else {
        return text.to_string();
    };
    let mut extra = String::new();
    for line in text[ho..].lines().skip(1) {
        let f: Vec<&str> = line.split(',').collect();
        if f.len() < 5 {
            continue;
        }
        let is_slider = f[3].trim().parse::<u32>().map_or(false, |t| t & 2 != 0);
        if is_slider && rng.chance(1, 2) {
            let sv = *rng.pick(&["-50", "-200", "-100", "-133.333"]);
            let kiai = u8::from(rng.chance(1, 2));
            extra.push_str(&format!("{},{sv},4,2,0,60,0,{kiai}\n", f[2].trim()));
        }
    }
    // append at the end of the [TimingPoints] section
    let section_end = text[tp..].find("\n\n").map_or(ho, |e| tp + e + 1);
    format!("{}{}{}", &text[..section_end], extra, &text[section_end..])
}

pub fn case(rng: &mut Rng, max_objects: usize) -> String {
    // stacked circles with rich hit sounds drive the mania pattern generator's REVERSE /
    // FORCE_STACK branches (special column in 8K)
    let shape = if rng.chance(1, 4) { Some(crate::gen::Shape::Stacked) } else { None };
    let mut gm = gen_any(
        rng,
        &GenOpts {
            mode: Some(0),
            max_objects,
            shape,
            ..Default::default()
        },
    );
    if rng.chance(1, 2) {
        gm.text = add_green_lines_at_sliders(&gm.text, rng);
    }
    let Ok(map) = Beatmap::from_bytes(gm.text.as_bytes()) else {
        return Obj::new().str("skip", "io").done();
    };
    if map.mode != GameMode::Osu {
        return Obj::new().str("skip", "not osu").done();
    }
    let target = 1 + rng.below(3) as u8;
    let (keys, mods, mods_name) = key_mods(rng);
    let o = Obj::new()
        .raw("target", target)
        .str("shape", gm.shape)
        .raw("version", map.version)
        .raw("n_objects", map.hit_objects.len())
        .str("mods", &mods_name)
        .str("map", &gm.text);
    let res = catch_unwind(AssertUnwindSafe(|| {
        let mut fails = Vec::new();
        let conv = match map.convert_ref(mode_of(target), &mods) {
            Ok(c) => c.into_owned(),
            Err(e) => return (vec![format!("conversion of an osu! map failed: {e:?}")], None),
        };
        if conv.mode != mode_of(target) || !conv.is_convert {
            fails.push(format!("converted map has mode {:?}, is_convert {}", conv.mode, conv.is_convert));
        }
        fails.extend(invariants(&conv, Some(&map)));
        for h in &conv.hit_objects {
            let dur = match &h.kind {
                HitObjectKind::Spinner(s) => s.duration,
                HitObjectKind::Hold(s) => s.duration,
                _ => 0.0,
            };
            if !(dur >= 0.0) {
                fails.push(format!("object at {} has duration {dur}", h.start_time));
                break;
            }
        }
        let mut extra = None;
        match target {
            1 => {
                if conv.hit_sounds.len() != conv.hit_objects.len() {
                    fails.push(format!(
                        "taiko convert: {} sounds for {} objects",
                        conv.hit_sounds.len(),
                        conv.hit_objects.len()
                    ));
                }
                if conv.hit_objects.iter().any(|h| matches!(h.kind, HitObjectKind::Hold(_))) {
                    fails.push("taiko convert contains a hold note".to_string());
                }
            }
            2 => {
                if conv.hit_objects != map.hit_objects || conv.hit_sounds != map.hit_sounds {
                    fails.push("catch convert changed the objects".to_string());
                }
                if conv.timing_points != map.timing_points
                    || conv.difficulty_points != map.difficulty_points
                    || conv.effect_points != map.effect_points
                {
                    fails.push("catch convert changed the control points".to_string());
                }
            }
            _ => {
                let cs = conv.cs;
                match keys {
                    Some(k) => {
                        if cs != k as f32 {
                            fails.push(format!("mania convert with {k}K has {cs} columns"));
                        }
                    }
                    None => {
                        if !(4.0..=7.0).contains(&cs) || cs.fract() != 0.0 {
                            fails.push(format!("mania convert without key mod has {cs} columns"));
                        }
                    }
                }
                let mut cols = Vec::new();
                for h in &conv.hit_objects {
                    let c = rosu_pp::verif::mania::column(h.pos.x, cs);
                    // `column` clamps to the last column, so the raw quotient is checked as well:
                    // a note at x = 512 would be column `cs` of `cs`
                    let raw = (h.pos.x / (512.0 / cs)).floor();
                    if !(raw < cs) {
                        fails.push(format!(
                            "mania note at x={} is in (unclamped) column {raw}, not below the key count {cs}",
                            h.pos.x
                        ));
                        break;
                    }
                    if (c as f32) >= cs || h.pos.x < 0.0 || h.pos.x > 512.0 || h.pos.x.fract() != 0.0 {
                        fails.push(format!(
                            "mania note at x={} lands in column {c} of {cs} (or is off the integer grid)",
                            h.pos.x
                        ));
                        break;
                    }
                    if cols.len() < 24 {
                        cols.push(format!("[{},{},{c}]", cs.to_bits(), h.pos.x.to_bits()));
                    }
                }
                let n_ss = map
                    .hit_objects
                    .iter()
                    .filter(|h| matches!(h.kind, HitObjectKind::Slider(_) | HitObjectKind::Spinner(_)))
                    .count();
                extra = Some(
                    Obj::new()
                        .raw("keys", keys.map_or(-1, |k| k as i64))
                        .raw("rounded_cs", map.cs.round_ties_even().to_bits())
                        .raw("rounded_od", map.od.round_ties_even().to_bits())
                        .raw("n_ss", n_ss)
                        .raw("len", map.hit_objects.len())
                        .raw("columns", cs as u32)
                        .raw("cols", arr(cols))
                        .done(),
                );
            }
        }
        fails.truncate(6);
        (fails, extra)
    }));
    match res {
        Ok((fails, extra)) => {
            let o = o.raw("fails", arr(fails.iter().map(|s| esc(s))));
            match extra {
                Some(e) => o.raw("mania", e).done(),
                None => o.done(),
            }
        }
        Err(e) => o.str("panic", &panic_msg(e)).done(),
    }
}

pub fn main(seed: u64, count: u64, max_objects: usize) {
    for k in 0..count {
        let mut rng = Rng::fork(seed ^ 0x63_6f6e_76, k);
        let line = case(&mut rng, max_objects);
        println!("{{\"id\":{k},{}", &line[1..]);
    }
    // the column function on a grid, for the Coq model
    let mut grid = Vec::new();
    for k in 1..=18u32 {
        for x in [0.0f32, 1.0, 36.0, 37.0, 64.0, 127.0, 128.0, 170.0, 171.0, 255.0, 256.0, 257.0, 341.0, 342.0, 384.0, 475.0, 476.0, 511.0, 512.0] {
            grid.push(format!("[{},{},{}]", (k as f32).to_bits(), x.to_bits(), rosu_pp::verif::mania::column(x, k as f32)));
        }
    }
    println!("{{\"id\":{count},\"grid\":{}}}", arr(grid));
}
