//! Finite, non-negative results (C09): every float of every attribute / strain struct on
//! degenerate and ordinary maps, every prefix, consistent score states, settings in the ranges
//! reachable in the game; accuracies in [0, 1]; zero hits = zero pp; plus traces for the exact
//! accuracy model.

use std::panic::{catch_unwind, AssertUnwindSafe};

use rosu_pp::{
    any::{DifficultyAttributes, PerformanceAttributes, ScoreState, Strains},
    catch::CatchScoreState,
    mania::ManiaScoreState,
    osu::{OsuScoreOrigin, OsuScoreState},
    taiko::TaikoScoreState,
    Beatmap, Performance,
};

use crate::{
    gen::{gen_any, GenOpts, Shape, SHAPES},
    grad::{mode_of, panic_msg},
    json::{arr, esc, Obj},
    rng::Rng,
    settings::gen_settings,
};

struct Scan {
    fails: Vec<String>,
    floats: u64,
}

impl Scan {
    fn fin(&mut self, name: &str, x: f64) {
        self.floats += 1;
        if !x.is_finite() && self.fails.len() < 5 {
            self.fails.push(format!("{name} = {x} is not finite"));
        }
    }
    fn nn(&mut self, name: &str, x: f64) {
        self.floats += 1;
        if (!x.is_finite() || x < 0.0) && self.fails.len() < 5 {
            self.fails.push(format!("{name} = {x} is not a finite non-negative number"));
        }
    }
    fn unit(&mut self, name: &str, x: f64) {
        self.floats += 1;
        if !(0.0..=1.0).contains(&x) && self.fails.len() < 5 {
            self.fails.push(format!("{name} = {x} is outside [0, 1]"));
        }
    }
    fn peaks(&mut self, name: &str, v: &[f64]) {
        for (i, x) in v.iter().enumerate() {
            self.floats += 1;
            if (!x.is_finite() || *x < 0.0 || x.is_sign_negative()) && self.fails.len() < 5 {
                self.fails.push(format!("{name}[{i}] = {x} is not a finite non-negative peak"));
                break;
            }
        }
    }
}

fn scan_difficulty(s: &mut Scan, a: &DifficultyAttributes) {
    match a {
        DifficultyAttributes::Osu(a) => {
            s.nn("osu.aim", a.aim);
            s.nn("osu.aim_difficult_slider_count", a.aim_difficult_slider_count);
            s.nn("osu.speed", a.speed);
            s.nn("osu.flashlight", a.flashlight);
            s.nn("osu.slider_factor", a.slider_factor);
            s.nn("osu.speed_note_count", a.speed_note_count);
            s.nn("osu.aim_difficult_strain_count", a.aim_difficult_strain_count);
            s.nn("osu.speed_difficult_strain_count", a.speed_difficult_strain_count);
            s.fin("osu.ar", a.ar);
            s.nn("osu.great_hit_window", a.great_hit_window);
            s.nn("osu.ok_hit_window", a.ok_hit_window);
            s.nn("osu.meh_hit_window", a.meh_hit_window);
            s.fin("osu.hp", a.hp);
            s.nn("osu.stars", a.stars);
        }
        DifficultyAttributes::Taiko(a) => {
            s.nn("taiko.stamina", a.stamina);
            s.nn("taiko.rhythm", a.rhythm);
            s.nn("taiko.color", a.color);
            s.nn("taiko.reading", a.reading);
            s.nn("taiko.great_hit_window", a.great_hit_window);
            s.nn("taiko.ok_hit_window", a.ok_hit_window);
            s.nn("taiko.mono_stamina_factor", a.mono_stamina_factor);
            s.nn("taiko.stars", a.stars);
        }
        DifficultyAttributes::Catch(a) => {
            s.nn("catch.stars", a.stars);
            s.fin("catch.ar", a.ar);
        }
        DifficultyAttributes::Mania(a) => s.nn("mania.stars", a.stars),
    }
}

fn scan_performance(s: &mut Scan, p: &PerformanceAttributes) {
    match p {
        PerformanceAttributes::Osu(p) => {
            s.nn("osu.pp", p.pp);
            s.nn("osu.pp_acc", p.pp_acc);
            s.nn("osu.pp_aim", p.pp_aim);
            s.nn("osu.pp_flashlight", p.pp_flashlight);
            s.nn("osu.pp_speed", p.pp_speed);
            s.nn("osu.effective_miss_count", p.effective_miss_count);
            if let Some(d) = p.speed_deviation {
                s.nn("osu.speed_deviation", d);
            }
        }
        PerformanceAttributes::Taiko(p) => {
            s.nn("taiko.pp", p.pp);
            s.nn("taiko.pp_acc", p.pp_acc);
            s.nn("taiko.pp_difficulty", p.pp_difficulty);
            s.nn("taiko.effective_miss_count", p.effective_miss_count);
            if let Some(d) = p.estimated_unstable_rate {
                s.nn("taiko.estimated_unstable_rate", d);
            }
        }
        PerformanceAttributes::Catch(p) => s.nn("catch.pp", p.pp),
        PerformanceAttributes::Mania(p) => {
            s.nn("mania.pp", p.pp);
            s.nn("mania.pp_difficulty", p.pp_difficulty);
        }
    }
    scan_difficulty(s, &p.difficulty_attributes());
}

fn scan_strains(s: &mut Scan, st: &Strains) {
    match st {
        Strains::Osu(x) => {
            s.peaks("osu.strains.aim", &x.aim);
            s.peaks("osu.strains.aim_no_sliders", &x.aim_no_sliders);
            s.peaks("osu.strains.speed", &x.speed);
            s.peaks("osu.strains.flashlight", &x.flashlight);
        }
        Strains::Taiko(x) => {
            s.peaks("taiko.strains.color", &x.color);
            s.peaks("taiko.strains.reading", &x.reading);
            s.peaks("taiko.strains.rhythm", &x.rhythm);
            s.peaks("taiko.strains.stamina", &x.stamina);
            s.peaks("taiko.strains.single_color_stamina", &x.single_color_stamina);
        }
        Strains::Catch(x) => s.peaks("catch.strains.movement", &x.movement),
        Strains::Mania(x) => s.peaks("mania.strains", &x.strains),
    }
}

/// A score state consistent with the object counts of the attributes (hit results add up to the
/// number of passed objects, tick / slider-end hits within their maxima, combo within max combo).
fn consistent_state(rng: &mut Rng, a: &DifficultyAttributes, passed: u32) -> ScoreState {
    let mut s = ScoreState::new();
    let split = |rng: &mut Rng, total: u32, parts: usize| -> Vec<u32> {
        let mut left = total;
        let mut v = Vec::new();
        for k in 0..parts {
            let x = if k + 1 == parts {
                left
            } else {
                match rng.below(4) {
                    0 => 0,
                    1 => left,
                    _ => rng.below(u64::from(left) + 1) as u32,
                }
            };
            v.push(x);
            left -= x;
        }
        v
    };
    match a {
        DifficultyAttributes::Osu(a) => {
            let n = a.n_objects().min(passed);
            let v = split(rng, n, 4);
            (s.n300, s.n100, s.n50, s.misses) = (v[0], v[1], v[2], v[3]);
            s.osu_large_tick_hits = rng.below(u64::from(a.n_large_ticks + a.n_sliders) + 1) as u32;
            s.osu_small_tick_hits = rng.below(u64::from(a.n_sliders) + 1) as u32;
            s.slider_end_hits = rng.below(u64::from(a.n_sliders) + 1) as u32;
            s.max_combo = rng.below(u64::from(a.max_combo) + 1) as u32;
        }
        DifficultyAttributes::Taiko(a) => {
            let n = a.max_combo.min(passed);
            let v = split(rng, n, 3);
            (s.n300, s.n100, s.misses) = (v[0], v[1], v[2]);
            s.max_combo = rng.below(u64::from(a.max_combo) + 1) as u32;
        }
        DifficultyAttributes::Catch(a) => {
            // fruits (n300), droplets (n100), tiny droplets (n50), tiny misses (katu), misses
            let fruits = rng.below(u64::from(a.n_fruits) + 1) as u32;
            let droplets = rng.below(u64::from(a.n_droplets) + 1) as u32;
            let tiny = rng.below(u64::from(a.n_tiny_droplets) + 1) as u32;
            s.n300 = fruits;
            s.n100 = droplets;
            s.n50 = tiny;
            s.n_katu = a.n_tiny_droplets - tiny;
            s.misses = (a.n_fruits - fruits) + (a.n_droplets - droplets);
            s.max_combo = rng.below(u64::from(a.max_combo()) + 1) as u32;
        }
        DifficultyAttributes::Mania(a) => {
            let n = a.n_objects.min(passed);
            let v = split(rng, n, 6);
            (s.n_geki, s.n300, s.n_katu, s.n100, s.n50, s.misses) = (v[0], v[1], v[2], v[3], v[4], v[5]);
        }
    }
    s
}

fn accuracy_of(s: &ScoreState, a: &DifficultyAttributes, lazer: bool, classic: bool) -> (f64, String) {
    match a {
        DifficultyAttributes::Osu(a) => {
            let st: OsuScoreState = s.clone().into();
            let origin = match (lazer, classic) {
                (false, _) => OsuScoreOrigin::Stable,
                (true, false) => OsuScoreOrigin::WithSliderAcc {
                    max_large_ticks: a.n_large_ticks,
                    max_slider_ends: a.n_sliders,
                },
                (true, true) => OsuScoreOrigin::WithoutSliderAcc {
                    max_large_ticks: a.n_sliders + a.n_large_ticks,
                    max_small_ticks: a.n_sliders,
                },
            };
            let (tag, m1, m2) = match origin {
                OsuScoreOrigin::Stable => (0, 0, 0),
                OsuScoreOrigin::WithSliderAcc { max_large_ticks, max_slider_ends } => (1, max_large_ticks, max_slider_ends),
                OsuScoreOrigin::WithoutSliderAcc { max_large_ticks, max_small_ticks } => (2, max_large_ticks, max_small_ticks),
            };
            (
                st.accuracy(origin),
                format!(
                    "[0,{tag},{m1},{m2},{},{},{},{},{},{},{}]",
                    st.n300, st.n100, st.n50, st.misses, st.slider_end_hits, st.large_tick_hits, st.small_tick_hits
                ),
            )
        }
        DifficultyAttributes::Taiko(_) => {
            let st: TaikoScoreState = s.clone().into();
            (st.accuracy(), format!("[1,{},{},{}]", st.n300, st.n100, st.misses))
        }
        DifficultyAttributes::Catch(_) => {
            let st: CatchScoreState = s.clone().into();
            (
                st.accuracy(),
                format!("[2,{},{},{},{},{}]", st.fruits, st.droplets, st.tiny_droplets, st.tiny_droplet_misses, st.misses),
            )
        }
        DifficultyAttributes::Mania(_) => {
            let st: ManiaScoreState = s.clone().into();
            (
                st.accuracy(classic),
                format!("[3,{},{},{},{},{},{},{}]", u8::from(classic), st.n320, st.n300, st.n200, st.n100, st.n50, st.misses),
            )
        }
    }
}

pub fn case(rng: &mut Rng, max_objects: usize) -> String {
    let shape = if rng.chance(2, 3) {
        Some(*rng.pick(&[
            Shape::Empty,
            Shape::Tiny,
            Shape::AllSpinners,
            Shape::Stacked,
            Shape::Dense,
            Shape::Sparse,
            Shape::SpinnerFirst,
        ]))
    } else {
        Some(*rng.pick(SHAPES))
    };
    let mut gm = gen_any(rng, &GenOpts { max_objects, shape, ..Default::default() });
    // now and then the mono-streak extreme of taiko: 40-160 hits in single-colour runs (all dons, or
    // runs of 24), as a native taiko map or as an osu! map to be converted, played with Relax
    let mono = rng.chance(1, 10);
    if mono {
        let n = 40 + rng.below(120);
        let gap = 90 + rng.below(120);
        let runs = rng.chance(1, 2);
        let mode = if rng.chance(1, 2) { 1 } else { 0 };
        let mut t = format!(
            "osu file format v14\n\n[General]\nMode: {mode}\n\n[Difficulty]\nHPDrainRate:5\nCircleSize:4\nOverallDifficulty:{}\nApproachRate:8\nSliderMultiplier:1.4\nSliderTickRate:1\n\n[TimingPoints]\n0,{},4,2,0,60,1,0\n\n[HitObjects]\n",
            rng.below(11),
            4 * gap
        );
        for i in 0..n {
            let sound = if runs && (i / 24) % 2 == 1 { 8 } else { 0 };
            t.push_str(&format!("{},{},{},1,{sound},0:0:0:0:\n", 64 + (i * 37) % 384, 64 + (i * 53) % 256, 1000 + i * gap));
        }
        gm.text = t;
        gm.shape = "mono streaks";
    }
    let Ok(map) = Beatmap::from_bytes(gm.text.as_bytes()) else {
        return Obj::new().str("skip", "io").done();
    };
    let src_mode = map.mode as u8;
    let target = if mono { 1 } else if src_mode == 0 && rng.chance(1, 2) { rng.below(4) as u8 } else { src_mode };
    let mut st = gen_settings(rng, target);
    if mono && st.repr != 4 {
        st.bits |= crate::settings::RX;
        st.bits &= !(1 << 13); // not together with Autopilot
    }
    let d0 = st.difficulty();
    let Ok(conv) = map.convert_ref(mode_of(target), &d0.clone().inspect().mods) else {
        return Obj::new().str("skip", "convert").done();
    };
    let o = Obj::new()
        .raw("mode", target)
        .raw("src_mode", src_mode)
        .str("shape", gm.shape)
        .raw("n_objects", conv.hit_objects.len())
        .raw("settings", st.json())
        .str("map", &gm.text);
    let res = catch_unwind(AssertUnwindSafe(|| {
        let mut s = Scan { fails: Vec::new(), floats: 0 };
        let mut accs = Vec::new();
        let n = conv.hit_objects.len() as u32;
        let prefixes: Vec<Option<u32>> = if n <= 12 {
            (0..=n + 1).map(Some).chain([None]).collect()
        } else {
            vec![Some(0), Some(1), Some(2), Some(n / 2), Some(n - 1), Some(n), None]
        };
        for passed in prefixes {
            let d = match passed {
                Some(p) => d0.clone().passed_objects(p),
                None => d0.clone(),
            };
            let attrs = d.calculate(&conv);
            scan_difficulty(&mut s, &attrs);
            scan_strains(&mut s, &d.strains(&conv));
            // zero hits (nothing passed yet, or a map without objects): zero pp.  A state of all
            // zeros on a non-empty prefix is not "zero hits": generate_state fills it up.
            let zero = Performance::new(attrs.clone()).difficulty(d.clone()).state(ScoreState::new()).calculate();
            scan_performance(&mut s, &zero);
            if (passed == Some(0) || n == 0) && zero.pp() != 0.0 && s.fails.len() < 5 {
                s.fails.push(format!("a play with zero hits is worth {} pp (passed_objects {passed:?}, {n} objects)", zero.pp()));
            }
            for _ in 0..3 {
                let state = consistent_state(rng, &attrs, passed.unwrap_or(u32::MAX));
                let p = Performance::new(attrs.clone()).difficulty(d.clone()).state(state.clone()).calculate();
                let before = s.fails.len();
                scan_performance(&mut s, &p);
                let lazer = st.lazer.unwrap_or(true);
                let classic = false;
                let (acc, row) = accuracy_of(&state, &attrs, lazer, classic);
                s.unit("accuracy", acc);
                if accs.len() < 12 {
                    accs.push(format!("{{\"in\":{row},\"acc\":{}}}", acc.to_bits()));
                }
                if s.fails.len() > before {
                    let last = s.fails.len() - 1;
                    s.fails[last] = format!("{} (state {}, passed_objects {passed:?})", s.fails[last], crate::gperf::state_json(&state));
                }
            }
            // accuracy-driven specification
            let p = Performance::new(attrs.clone())
                .difficulty(d.clone())
                .accuracy(rng.f64_range(0.0, 100.0))
                .misses(rng.below(u64::from(n) + 1) as u32)
                .calculate();
            scan_performance(&mut s, &p);
        }
        (s.fails, s.floats, accs)
    }));
    match res {
        Ok((fails, floats, accs)) => o
            .raw("floats", floats)
            .raw("accs", arr(accs))
            .raw("fails", arr(fails.iter().map(|s| esc(s))))
            .done(),
        Err(e) => o.str("panic", &panic_msg(e)).done(),
    }
}

pub fn main(seed: u64, count: u64, max_objects: usize) {
    for k in 0..count {
        let mut rng = Rng::fork(seed ^ 0x66_696e, k);
        let line = case(&mut rng, max_objects);
        println!("{{\"id\":{k},{}", &line[1..]);
    }
}
