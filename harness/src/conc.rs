//! Concurrent use (C20): the same jobs run one after another and on thread pools of
//! several sizes with shuffled assignment, sharing the maps by reference; with the `sync`
//! feature a gradual calculator is handed from thread to thread between steps.

use std::{
    panic::{catch_unwind, AssertUnwindSafe},
    sync::Mutex,
    thread,
};

use rosu_pp::{Beatmap, Difficulty};

use crate::{
    feat::{evaluate, gen_job, job_head, result_json, Job},
    json::{arr, Obj},
    rng::Rng,
};

// compile-time facts: what may be shared / sent
#[allow(dead_code)]
fn assert_send_sync<T: Send + Sync>() {}
#[allow(dead_code)]
fn static_assertions() {
    assert_send_sync::<Beatmap>();
    assert_send_sync::<Difficulty>();
    assert_send_sync::<rosu_pp::any::DifficultyAttributes>();
    assert_send_sync::<rosu_pp::any::PerformanceAttributes>();
    assert_send_sync::<rosu_pp::any::Strains>();
    assert_send_sync::<rosu_pp::osu::OsuGradualDifficulty>();
    assert_send_sync::<rosu_pp::catch::CatchGradualDifficulty>();
    assert_send_sync::<rosu_pp::mania::ManiaGradualDifficulty>();
    #[cfg(feature = "sync")]
    assert_send_sync::<rosu_pp::taiko::TaikoGradualDifficulty>();
}

fn run_parallel(jobs: &[Job], threads: usize, rng: &mut Rng, duplicate: bool) -> Vec<Option<String>> {
    // shuffled assignment of job indices to threads; with `duplicate` every job is given to
    // every thread (the same map and settings evaluated at the same time)
    let mut order: Vec<usize> = (0..jobs.len()).collect();
    for i in (1..order.len()).rev() {
        let k = rng.below(i as u64 + 1) as usize;
        order.swap(i, k);
    }
    let results: Mutex<Vec<Vec<String>>> = Mutex::new(vec![Vec::new(); jobs.len()]);
    thread::scope(|s| {
        for t in 0..threads {
            let mine: Vec<usize> = if duplicate {
                let mut o = order.clone();
                o.rotate_left(t % order.len().max(1));
                o
            } else {
                order.iter().copied().skip(t).step_by(threads).collect()
            };
            let results = &results;
            s.spawn(move || {
                for i in mine {
                    let r = catch_unwind(AssertUnwindSafe(|| evaluate(&jobs[i])));
                    let sig = result_json(&r);
                    results.lock().unwrap()[i].push(sig);
                }
            });
        }
    });
    let results = results.into_inner().unwrap();
    results
        .into_iter()
        .map(|v| {
            // all evaluations of a job must agree; report the first one that differs from the first
            let mut it = v.into_iter();
            let first = it.next()?;
            for other in it {
                if other != first {
                    return Some(format!("{first} <> {other}"));
                }
            }
            Some(first)
        })
        .collect()
}

#[cfg(feature = "sync")]
fn handover(j: &Job) -> Option<String> {
    use crate::canon::Canon;
    use rosu_pp::GradualDifficulty;
    let mut st = j.st.clone();
    st.passed = None;
    let d = st.difficulty();
    let mode = crate::grad::mode_of(j.target);
    let single: Vec<String> = {
        let mut g = GradualDifficulty::new_with_mode(d.clone(), &j.map, mode).ok()?;
        let mut v = Vec::new();
        while let Some(a) = g.next() {
            v.push(a.json());
            if v.len() > j.map.hit_objects.len() * 3 + 8 {
                break;
            }
        }
        v
    };
    // a fresh thread for every step
    let mut g = GradualDifficulty::new_with_mode(d, &j.map, mode).ok()?;
    let mut moved = Vec::new();
    loop {
        let (g2, a) = thread::spawn(move || {
            let a = g.next();
            (g, a)
        })
        .join()
        .ok()?;
        g = g2;
        match a {
            Some(a) => moved.push(a.json()),
            None => break,
        }
        if moved.len() > j.map.hit_objects.len() * 3 + 8 {
            break;
        }
    }
    if single == moved {
        None
    } else {
        Some(format!(
            "gradual sequence differs when handed from thread to thread: {} vs {} values",
            single.len(),
            moved.len()
        ))
    }
}

#[cfg(not(feature = "sync"))]
fn handover(_j: &Job) -> Option<String> {
    None
}

pub fn main(seed: u64, count: u64, max_objects: usize) {
    let mut rng = Rng::fork(seed ^ 0x63_6f6e_63, 0);
    let mut jobs = Vec::new();
    let mut k = 0;
    while (jobs.len() as u64) < count && k < count * 3 {
        let mut r = Rng::fork(seed ^ 0x63_6f6e_63, 1000 + k);
        k += 1;
        if let Some(mut j) = gen_job(&mut r, max_objects) {
            // seeds of the lazer Random mod are where a process-wide cache would bite
            if (j.target == 1 || j.target == 3) && r.chance(2, 3) {
                j.st.repr = 4;
                j.st.lazer_extra |= 4;
                j.st.seed = (r.below(6) as i32) + 1;
            }
            jobs.push(j);
        }
    }
    let sequential: Vec<String> = jobs
        .iter()
        .map(|j| result_json(&catch_unwind(AssertUnwindSafe(|| evaluate(j)))))
        .collect();
    let mut fails: Vec<Vec<String>> = vec![Vec::new(); jobs.len()];
    let cores = thread::available_parallelism().map_or(4, |n| n.get());
    let mut pools = Vec::new();
    for (threads, duplicate) in [(2, false), (4, false), (8, true), (cores.min(16), false), (cores.min(16), true), (3, true)] {
        pools.push(format!("{threads}{}", if duplicate { "dup" } else { "" }));
        let par = run_parallel(&jobs, threads, &mut rng, duplicate);
        for (i, p) in par.iter().enumerate() {
            match p {
                Some(s) if *s == sequential[i] => {}
                Some(s) => {
                    if fails[i].len() < 3 {
                        fails[i].push(format!(
                            "{threads} threads{}: {} <> sequential {}",
                            if duplicate { " (every job on every thread)" } else { "" },
                            &s[..s.len().min(400)],
                            &sequential[i][..sequential[i].len().min(400)]
                        ));
                    }
                }
                None => fails[i].push(format!("{threads} threads: job was not evaluated")),
            }
        }
    }
    // stress: the smallest jobs hammered by all threads at once, many rounds; every evaluation
    // must give the sequential result (a race window of a few instructions needs many tries)
    let mut small: Vec<usize> = (0..jobs.len()).collect();
    small.sort_by_key(|&i| jobs[i].map.hit_objects.len());
    // prefer jobs whose conversion / calculation is seeded (lazer Random), then the rest
    small.sort_by_key(|&i| !(jobs[i].st.repr == 4 && jobs[i].st.lazer_extra & 4 != 0));
    let picked: Vec<usize> = small
        .into_iter()
        .filter(|&i| (6..=24).contains(&jobs[i].map.hit_objects.len()))
        .take(6)
        .collect();
    let rounds: usize = std::env::var("VH_STRESS_ROUNDS").ok().and_then(|s| s.parse().ok()).unwrap_or(3000);
    if !picked.is_empty() {
        let mismatches: Mutex<Vec<(usize, String)>> = Mutex::new(Vec::new());
        thread::scope(|s| {
            for t in 0..cores.min(16).max(2) {
                let (picked, jobs, sequential, mismatches) = (&picked, &jobs, &sequential, &mismatches);
                s.spawn(move || {
                    for r in 0..rounds {
                        let i = picked[(r + t) % picked.len()];
                        let got = result_json(&catch_unwind(AssertUnwindSafe(|| evaluate(&jobs[i]))));
                        if got != sequential[i] {
                            let mut m = mismatches.lock().unwrap();
                            if m.len() < 8 {
                                m.push((i, got));
                            }
                        }
                    }
                });
            }
        });
        for (i, got) in mismatches.into_inner().unwrap() {
            if fails[i].len() < 3 {
                fails[i].push(format!(
                    "stress ({} threads x {rounds} rounds over {} small jobs): {} <> sequential {}",
                    cores.min(16).max(2),
                    picked.len(),
                    &got[..got.len().min(400)],
                    &sequential[i][..sequential[i].len().min(400)]
                ));
            }
        }
        pools.push(format!("stress{}x{rounds}", cores.min(16).max(2)));
    }
    for (i, j) in jobs.iter().enumerate() {
        if j.map.hit_objects.len() <= 40 {
            if let Some(f) = handover(j) {
                fails[i].push(f);
            }
        }
    }
    for (i, j) in jobs.iter().enumerate() {
        let line = job_head(j)
            .raw("pools", arr(pools.iter().map(|p| crate::json::esc(p))))
            .raw("handover", cfg!(feature = "sync"))
            .raw("fails", arr(fails[i].iter().map(|s| crate::json::esc(s))))
            .done();
        println!("{{\"id\":{i},{}", &line[1..]);
    }
    let _ = Obj::new();
}
