//! Minimal JSON writing (no dependencies available offline beyond the crate itself).

pub fn esc(s: &str) -> String {
    let mut o = String::with_capacity(s.len() + 2);
    o.push('"');
    for c in s.chars() {
        match c {
            '"' => o.push_str("\\\""),
            '\\' => o.push_str("\\\\"),
            '\n' => o.push_str("\\n"),
            '\r' => o.push_str("\\r"),
            '\t' => o.push_str("\\t"),
            c if (c as u32) < 0x20 => o.push_str(&format!("\\u{:04x}", c as u32)),
            c => o.push(c),
        }
    }
    o.push('"');
    o
}

pub fn arr<T: ToString>(xs: impl IntoIterator<Item = T>) -> String {
    let v: Vec<String> = xs.into_iter().map(|x| x.to_string()).collect();
    format!("[{}]", v.join(","))
}

/// f64 -> bit pattern with every NaN canonicalised (sign and payload are not compared).
pub fn fbits(x: f64) -> u64 {
    if x.is_nan() {
        0x7FF8_0000_0000_0000
    } else {
        x.to_bits()
    }
}

pub fn f32bits(x: f32) -> u32 {
    if x.is_nan() {
        0x7FC0_0000
    } else {
        x.to_bits()
    }
}

pub struct Obj(Vec<String>);

impl Obj {
    pub fn new() -> Self {
        Self(Vec::new())
    }
    pub fn raw(mut self, k: &str, v: impl ToString) -> Self {
        self.0.push(format!("{}:{}", esc(k), v.to_string()));
        self
    }
    pub fn str(self, k: &str, v: &str) -> Self {
        let e = esc(v);
        self.raw(k, e)
    }
    pub fn f(self, k: &str, v: f64) -> Self {
        self.raw(k, fbits(v))
    }
    pub fn b(self, k: &str, v: bool) -> Self {
        self.raw(k, v)
    }
    pub fn done(self) -> String {
        format!("{{{}}}", self.0.join(","))
    }
}
