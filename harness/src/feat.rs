//! Workload whose results must not depend on the cargo features `raw_strains` / `sync`
//! (C10), and the threaded variant of it (C20).  Floats are canonicalised (-0.0 -> 0.0, every
//! NaN -> one NaN) so that "numerically equal" can be decided by comparing strings.

use std::panic::{catch_unwind, AssertUnwindSafe};

use rosu_pp::{
    any::{DifficultyAttributes, PerformanceAttributes, Strains},
    Beatmap, Difficulty, GradualDifficulty, GradualPerformance, Performance,
};

use crate::{
    canon::Canon,
    eqv::{gen_spec, Spec},
    gen::{gen_any, GenOpts, Shape},
    gperf::gen_state,
    grad::{mode_of, panic_msg},
    json::{arr, Obj},
    rng::Rng,
    settings::{gen_settings, Settings},
};

fn fnv_u64(h: &mut u64, x: u64) {
    for b in x.to_le_bytes() {
        *h ^= u64::from(b);
        *h = h.wrapping_mul(0x100_0000_01b3);
    }
}

fn canon_bits(x: f64) -> u64 {
    if x == 0.0 {
        0
    } else if x.is_nan() {
        f64::NAN.to_bits()
    } else {
        x.to_bits()
    }
}

fn floats_sig(v: &[f64]) -> String {
    let mut h = 0xcbf2_9ce4_8422_2325;
    let mut zeros = 0u64;
    let mut subnormal = 0u64;
    for x in v {
        fnv_u64(&mut h, canon_bits(*x));
        if *x == 0.0 {
            zeros += 1;
        } else if x.is_subnormal() {
            subnormal += 1;
        }
    }
    format!("{}:{zeros}z:{subnormal}s:{h:016x}", v.len())
}

fn canon_json<T: Canon>(a: &T) -> String {
    format!(
        "{{\"i\":{},\"f\":{}}}",
        arr(a.ints()),
        arr(a.floats().into_iter().map(canon_bits))
    )
}

fn strains_sig(s: &Strains) -> String {
    match s {
        Strains::Osu(s) => format!(
            "aim {} aim_ns {} speed {} fl {}",
            floats_sig(&s.aim),
            floats_sig(&s.aim_no_sliders),
            floats_sig(&s.speed),
            floats_sig(&s.flashlight)
        ),
        Strains::Taiko(s) => format!(
            "color {} reading {} rhythm {} stamina {} scs {}",
            floats_sig(&s.color),
            floats_sig(&s.reading),
            floats_sig(&s.rhythm),
            floats_sig(&s.stamina),
            floats_sig(&s.single_color_stamina)
        ),
        Strains::Catch(s) => format!("movement {}", floats_sig(&s.movement)),
        Strains::Mania(s) => format!("strains {}", floats_sig(&s.strains)),
    }
}

pub struct Job {
    pub text: String,
    pub shape: &'static str,
    pub map: Beatmap,
    pub target: u8,
    pub st: Settings,
    pub spec: Spec,
    pub states: Vec<rosu_pp::any::ScoreState>,
}

pub fn gen_job(rng: &mut Rng, max_objects: usize) -> Option<Job> {
    // very long empty stretches (many zero sections, decay through the subnormal range)
    let shape = match rng.below(5) {
        0 | 1 => Some(Shape::Sparse),
        _ => None,
    };
    let gm = gen_any(
        rng,
        &GenOpts {
            max_objects,
            shape,
            ..Default::default()
        },
    );
    let map = Beatmap::from_bytes(gm.text.as_bytes()).ok()?;
    let src_mode = map.mode as u8;
    let target = if src_mode == 0 && rng.chance(1, 2) {
        rng.below(4) as u8
    } else {
        src_mode
    };
    let mut st = gen_settings(rng, target);
    if rng.chance(1, 3) {
        st.passed = Some(rng.below(map.hit_objects.len() as u64 + 3) as u32);
    }
    map.convert_ref(mode_of(target), &st.difficulty().inspect().mods).ok()?;
    let spec = gen_spec(rng, map.hit_objects.len() as u64);
    let states = (0..3).map(|_| gen_state(rng, map.hit_objects.len() as u64)).collect();
    Some(Job {
        text: gm.text,
        shape: gm.shape,
        map,
        target,
        st,
        spec,
        states,
    })
}

/// One signature line per API for a job.
pub fn evaluate(j: &Job) -> Vec<(&'static str, String)> {
    let d: Difficulty = j.st.difficulty();
    let mode = mode_of(j.target);
    let mut v = Vec::new();
    let conv = j.map.convert_ref(mode, &d.clone().inspect().mods).expect("convertible");
    let a: DifficultyAttributes = d.calculate(&conv);
    v.push(("difficulty", canon_json(&a)));
    v.push(("strains", strains_sig(&d.strains(&conv))));
    let p: PerformanceAttributes = j
        .spec
        .apply(Performance::new(&j.map).difficulty(d.clone()).mode_or_ignore(mode))
        .calculate();
    v.push(("performance", canon_json(&p)));
    if conv.hit_objects.len() <= 30 {
        let mut d2 = d.clone();
        if j.st.passed.is_some() {
            // gradual calculators take no passed_objects
            let mut st = j.st.clone();
            st.passed = None;
            d2 = st.difficulty();
        }
        if let Ok(mut g) = GradualDifficulty::new_with_mode(d2.clone(), &j.map, mode) {
            let mut vals = Vec::new();
            while let Some(a) = g.next() {
                vals.push(canon_json(&a));
                if vals.len() > conv.hit_objects.len() * 3 + 8 {
                    break;
                }
            }
            v.push(("gradual difficulty", arr(vals)));
        }
        if let Ok(mut g) = GradualPerformance::new_with_mode(d2, &j.map, mode) {
            let mut vals = Vec::new();
            let mut k = 0;
            while let Some(a) = g.next(j.states[k % j.states.len()].clone()) {
                vals.push(canon_json(&a));
                k += 1;
                if k > conv.hit_objects.len() * 3 + 8 {
                    break;
                }
            }
            v.push(("gradual performance", arr(vals)));
        }
    }
    v
}

pub fn job_head(j: &Job) -> Obj {
    Obj::new()
        .raw("mode", j.target)
        .raw("src_mode", j.map.mode as u8)
        .str("shape", j.shape)
        .raw("n_objects", j.map.hit_objects.len())
        .raw("settings", j.st.json())
        .raw("spec", j.spec.json())
        .str("map", &j.text)
}

pub fn result_json(r: &std::thread::Result<Vec<(&'static str, String)>>) -> String {
    match r {
        Ok(v) => {
            let mut o = Obj::new();
            for (k, s) in v {
                o = o.str(k, s);
            }
            o.done()
        }
        Err(_) => "{\"panic\":true}".to_string(),
    }
}

pub fn main(seed: u64, count: u64, max_objects: usize) {
    for k in 0..count {
        let mut rng = Rng::fork(seed ^ 0x66_6561_74, k);
        let Some(j) = gen_job(&mut rng, max_objects) else {
            println!("{{\"id\":{k},\"skip\":true}}");
            continue;
        };
        let res = catch_unwind(AssertUnwindSafe(|| evaluate(&j)));
        let line = match &res {
            Ok(_) => job_head(&j).raw("results", result_json(&res)).done(),
            Err(e) => job_head(&j)
                .str("panic", &panic_msg(Box::new(format!("{e:?}"))))
                .raw("results", "{\"panic\":true}")
                .done(),
        };
        println!("{{\"id\":{k},{}", &line[1..]);
    }
}
