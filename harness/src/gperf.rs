//! Gradual performance vs one-shot performance of the partial play (M3; C03, C15).

use std::panic::{catch_unwind, AssertUnwindSafe};

use rosu_pp::{any::ScoreState, Beatmap, Difficulty, GradualPerformance, Performance};

use crate::{
    canon::Canon,
    gen::{gen_any, GenOpts},
    grad::{mode_of, panic_msg, view_json},
    json::{arr, esc, Obj},
    rng::Rng,
    settings::{gen_settings, Settings},
};

#[derive(Clone, Debug)]
pub enum POp {
    Next(usize),
    Nth(usize, u64),
    Last(usize),
}

pub fn gen_state(rng: &mut Rng, total: u64) -> ScoreState {
    let hi = total + 3;
    let mut s = ScoreState::new();
    match rng.below(4) {
        // all-perfect play of a prefix
        0 => {
            s.n300 = rng.below(hi) as u32;
            s.max_combo = rng.below(2 * hi + 1) as u32;
        }
        // zero state
        1 => {}
        // arbitrary, possibly inconsistent
        _ => {
            s.max_combo = rng.below(3 * hi) as u32;
            s.osu_large_tick_hits = rng.below(hi) as u32;
            s.osu_small_tick_hits = rng.below(hi) as u32;
            s.slider_end_hits = rng.below(hi) as u32;
            s.n_geki = rng.below(hi) as u32;
            s.n_katu = rng.below(hi) as u32;
            s.n300 = rng.below(hi) as u32;
            s.n100 = rng.below(hi) as u32;
            s.n50 = rng.below(hi) as u32;
            s.misses = rng.below(hi) as u32;
        }
    }
    s
}

pub fn state_json(s: &ScoreState) -> String {
    format!(
        "[{},{},{},{},{},{},{},{},{},{}]",
        s.max_combo,
        s.osu_large_tick_hits,
        s.osu_small_tick_hits,
        s.slider_end_hits,
        s.n_geki,
        s.n_katu,
        s.n300,
        s.n100,
        s.n50,
        s.misses
    )
}

fn gen_pops(rng: &mut Rng, total: u64, n_states: usize) -> Vec<POp> {
    let n_ops = 1 + rng.below(total.min(12) + 3);
    (0..n_ops)
        .map(|_| {
            let sid = rng.below(n_states as u64) as usize;
            match rng.below(10) {
                0..=4 => POp::Next(sid),
                5..=7 => POp::Nth(
                    sid,
                    match rng.below(7) {
                        0 => 0,
                        1 => 1,
                        2 => rng.below(total + 3),
                        3 => total,
                        4 => u64::MAX,
                        _ => rng.below(4),
                    },
                ),
                _ => POp::Last(sid),
            }
        })
        .collect()
}

fn oneshot(map: &Beatmap, mode: u8, d: &Difficulty, passed: u64, s: &ScoreState) -> String {
    // mods first: the conversion performed by `try_mode` depends on them (mania key mods)
    let perf = match Performance::new(map)
        .difficulty(d.clone())
        .try_mode(mode_of(mode))
    {
        Ok(p) => p,
        Err(_) => return "\"convert-error\"".to_string(),
    };
    perf.passed_objects(passed as u32)
        .state(s.clone())
        .calculate()
        .json()
}

pub fn case(rng: &mut Rng, max_objects: usize) -> String {
    let buzz = rng.chance(1, 10);
    let gm = gen_any(
        rng,
        &GenOpts {
            max_objects,
            mode: if buzz { Some(2) } else { None },
            shape: if buzz { Some(crate::gen::Shape::Buzz) } else { None },
            ..Default::default()
        },
    );
    let map = match Beatmap::from_bytes(gm.text.as_bytes()) {
        Ok(m) => m,
        Err(e) => {
            return Obj::new()
                .str("map", &gm.text)
                .str("decode_error", &e.to_string())
                .done()
        }
    };
    let src_mode = map.mode as u8;
    let target = if src_mode == 0 && rng.chance(1, 2) {
        rng.below(4) as u8
    } else {
        src_mode
    };
    let st: Settings = gen_settings(rng, target);
    let d = st.difficulty();
    let conv = match map.convert_ref(mode_of(target), &d.clone().inspect().mods) {
        Ok(c) => c.into_owned(),
        Err(e) => {
            return Obj::new()
                .str("map", &gm.text)
                .str("convert_error", &format!("{e:?}"))
                .done()
        }
    };
    let head = Obj::new()
        .raw("mode", target)
        .raw("src_mode", src_mode)
        .str("shape", gm.shape)
        .raw("settings", st.json())
        .str("map", &gm.text);
    let (view, total) = match catch_unwind(AssertUnwindSafe(|| view_json(target, &d, &conv))) {
        Ok(v) => v,
        Err(e) => return head.str("panic_view", &panic_msg(e)).done(),
    };
    let head = head.raw("view", view).raw("total", total);

    let states: Vec<ScoreState> = (0..4).map(|_| gen_state(rng, total)).collect();
    let mut seqs = Vec::new();
    for _ in 0..3 {
        let ops = gen_pops(rng, total, states.len());
        let res = catch_unwind(AssertUnwindSafe(|| {
            let mut g = GradualPerformance::new_with_mode(d.clone(), &map, mode_of(target)).ok()?;
            let len0 = g.len() as u64;
            let mut p: u64 = 0; // reference position: objects processed so far
            let mut outs = Vec::new();
            for op in &ops {
                let (sid, n) = match *op {
                    POp::Next(s) => (s, 0),
                    POp::Nth(s, n) => (s, n),
                    POp::Last(s) => (s, u64::MAX),
                };
                let state = states[sid].clone();
                let r = match *op {
                    POp::Next(_) => g.next(state.clone()),
                    POp::Nth(_, n) => g.nth(state.clone(), usize::try_from(n).unwrap_or(usize::MAX)),
                    POp::Last(_) => g.last(state.clone()),
                };
                let len_after = g.len() as u64;
                // the reference: min(n+1, remaining) objects are processed
                let step = n.saturating_add(1).min(total - p);
                p += step;
                let o = Obj::new().raw("len", len_after).raw("p", p);
                outs.push(match r {
                    None => o.raw("some", false).done(),
                    Some(a) => {
                        let got = a.json();
                        let want = oneshot(&map, target, &d, p, &state);
                        let o = o.raw("some", true).raw("ints", ints_of(&got));
                        if got == want {
                            o.raw("eq", true).done()
                        } else {
                            o.raw("eq", false).raw("got", got).raw("want", want).done()
                        }
                    }
                });
            }
            Some((len0, outs))
        }));
        let s = Obj::new().raw(
            "ops",
            arr(ops.iter().map(|o| match o {
                POp::Next(s) => format!("[\"next\",{s}]"),
                POp::Nth(s, n) => format!("[\"nth\",{s},{n}]"),
                POp::Last(s) => format!("[\"last\",{s}]"),
            })),
        );
        seqs.push(match res {
            Ok(Some((len0, outs))) => s.raw("len0", len0).raw("outs", arr(outs)).done(),
            Ok(None) => s.str("error", "constructor failed").done(),
            Err(e) => s.str("panic", &panic_msg(e)).done(),
        });
    }
    // the mode-specific calculators' own next / last (the mode-agnostic wrapper only calls nth)
    let specific = catch_unwind(AssertUnwindSafe(|| {
        macro_rules! run {
            ($m:ty) => {{
                let mut g = d.clone().gradual_performance_for_mode::<$m>(&map).ok()?;
                let a = g.next(states[0].clone().into()).map(|x| x.json());
                let b = g.next(states[1].clone().into()).map(|x| x.json());
                let c = g.last(states[2].clone().into()).map(|x| x.json());
                Some(vec![a, b, c])
            }};
        }
        let got: Vec<Option<String>> = match target {
            0 => run!(rosu_pp::osu::Osu)?,
            1 => run!(rosu_pp::taiko::Taiko)?,
            2 => run!(rosu_pp::catch::Catch)?,
            _ => run!(rosu_pp::mania::Mania)?,
        };
        let mut g = GradualPerformance::new_with_mode(d.clone(), &map, mode_of(target)).ok()?;
        let inner = |x: rosu_pp::any::PerformanceAttributes| match x {
            rosu_pp::any::PerformanceAttributes::Osu(a) => a.json(),
            rosu_pp::any::PerformanceAttributes::Taiko(a) => a.json(),
            rosu_pp::any::PerformanceAttributes::Catch(a) => a.json(),
            rosu_pp::any::PerformanceAttributes::Mania(a) => a.json(),
        };
        let want = vec![
            g.next(states[0].clone()).map(inner),
            g.next(states[1].clone()).map(inner),
            g.last(states[2].clone()).map(inner),
        ];
        Some(got == want)
    }));
    let head = match specific {
        Ok(Some(eq)) => head.raw("mode_specific_eq", eq),
        Ok(None) => head,
        Err(e) => head.str("panic_mode_specific", &panic_msg(e)),
    };
    // a Difficulty that already carries passed_objects(k): whatever len() the calculator announces,
    // it must follow the protocol relative to that announcement, and every value is the one-shot
    // result for the position reached
    let head = if rng.chance(1, 2) {
        let k = match rng.below(4) {
            0 => 0,
            1 => rng.below(4),
            2 => total + rng.below(3),
            _ => rng.below(total + 1),
        } as u32;
        let d2 = d.clone().passed_objects(k);
        let ops = gen_pops(rng, total, states.len());
        let res = catch_unwind(AssertUnwindSafe(|| {
            let mut g = GradualPerformance::new_with_mode(d2.clone(), &map, mode_of(target)).ok()?;
            let len0 = g.len() as u64;
            let mut p: u64 = 0;
            let mut outs = Vec::new();
            for op in &ops {
                let (sid, n) = match *op {
                    POp::Next(s) => (s, 0),
                    POp::Nth(s, n) => (s, n),
                    POp::Last(s) => (s, u64::MAX),
                };
                let state = states[sid].clone();
                let r = match *op {
                    POp::Next(_) => g.next(state.clone()),
                    POp::Nth(_, n) => g.nth(state.clone(), usize::try_from(n).unwrap_or(usize::MAX)),
                    POp::Last(_) => g.last(state.clone()),
                };
                let len_after = g.len() as u64;
                let step = n.saturating_add(1).min(len0.saturating_sub(p));
                p += step;
                let o = Obj::new().raw("len", len_after).raw("p", p);
                outs.push(match r {
                    None => o.raw("some", false).done(),
                    Some(a) => {
                        let got = a.json();
                        let want = oneshot(&map, target, &d2, p, &state);
                        if got == want {
                            o.raw("some", true).raw("eq", true).done()
                        } else {
                            o.raw("some", true).raw("eq", false).raw("got", got).raw("want", want).done()
                        }
                    }
                });
            }
            Some((len0, outs))
        }));
        let s = Obj::new().raw("k", k).raw(
            "ops",
            arr(ops.iter().map(|o| match o {
                POp::Next(s) => format!("[\"next\",{s}]"),
                POp::Nth(s, n) => format!("[\"nth\",{s},{n}]"),
                POp::Last(s) => format!("[\"last\",{s}]"),
            })),
        );
        head.raw(
            "preset",
            match res {
                Ok(Some((len0, outs))) => s.raw("len0", len0).raw("outs", arr(outs)).done(),
                Ok(None) => s.str("error", "constructor failed").done(),
                Err(e) => s.str("panic", &panic_msg(e)).done(),
            },
        )
    } else {
        head
    };
    head.raw("states", arr(states.iter().map(state_json)))
        .raw("seqs", arr(seqs))
        .done()
}

/// The `"i":[...]` array of the difficulty part of a canonical performance dump.
fn ints_of(json: &str) -> String {
    // canonical dumps are {"f":[..],"i":[..],"d":{"f":[..],"i":[..]}}: take the last "i"
    match json.rfind("\"i\":[") {
        Some(pos) => {
            let rest = &json[pos + 4..];
            let end = rest.find(']').map_or(rest.len(), |e| e + 1);
            rest[..end].to_string()
        }
        None => "[]".to_string(),
    }
}

pub fn main(seed: u64, count: u64, max_objects: usize) {
    for k in 0..count {
        let mut rng = Rng::fork(seed ^ 0x6770_6572_66, k);
        let line = case(&mut rng, max_objects);
        println!("{{\"id\":{k},{}", &line[1..]);
    }
}

#[allow(dead_code)]
fn _unused(_: &str) -> String {
    esc("")
}
