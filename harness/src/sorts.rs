//! The two ported sorting routines (`util::sort::csharp`, `util::sort::osu_legacy`) on adversarial
//! key patterns: the result must be ordered, a permutation of the input, and the same on every call.
//! (osu_legacy re-orders the already time-ordered objects of decoded mania maps and mania converts —
//! C06 / C19; csharp orders the nested objects of sliders.)

use crate::json::Obj;
use crate::rng::Rng;
use rosu_pp::model::hit_object::{HitObject, HitObjectKind};
use rosu_pp::verif::{csharp_sort, osu_legacy_sort};
use std::panic::{catch_unwind, AssertUnwindSafe};

fn keys(rng: &mut Rng) -> (Vec<i64>, &'static str) {
    let n = match rng.below(6) {
        0 => rng.below(4) as usize,
        1 => 14 + rng.below(6) as usize, // around the insertion-sort threshold
        2 => 30 + rng.below(100) as usize,
        3 => 200 + rng.below(800) as usize,
        _ => 1000 + rng.below(3000) as usize,
    };
    match rng.below(9) {
        0 => ((0..n as i64).collect(), "sorted"),
        1 => ((0..n as i64).rev().collect(), "reversed"),
        2 => (vec![7; n], "all equal"),
        3 => ((0..n).map(|_| rng.below(2) as i64).collect(), "two values"),
        4 => ((0..n).map(|_| rng.below(5) as i64).collect(), "few values"),
        5 => {
            // organ pipe
            let h = n / 2;
            ((0..n).map(|i| if i < h { i as i64 } else { (n - i) as i64 }).collect(), "organ pipe")
        }
        6 => {
            // median-of-three killer
            let mut v = vec![0i64; n];
            let k = n / 2;
            for i in 0..k {
                if i % 2 == 0 {
                    v[i] = i as i64 + 1;
                } else {
                    v[i] = (k + i + k % 2) as i64;
                }
                if k + i < n {
                    v[k + i] = 2 * (i as i64 + 1);
                }
            }
            (v, "median-of-3 killer")
        }
        7 => ((0..n).map(|i| (i % 17) as i64 * 1000 - i as i64).collect(), "sawtooth"),
        _ => ((0..n).map(|_| rng.below(1_000_000) as i64 - 500_000).collect(), "random"),
    }
}

pub fn main(seed: u64, count: u64) {
    for k in 0..count {
        let mut rng = Rng::fork(seed ^ 0x736f_7274, k);
        let (ks, pattern) = keys(&mut rng);
        let mut fails: Vec<String> = Vec::new();
        // (key, original index): the index tells permutations apart
        let input: Vec<(i64, usize)> = ks.iter().copied().zip(0..).collect();
        let run_csharp = |v: &Vec<(i64, usize)>| {
            let mut w = v.clone();
            catch_unwind(AssertUnwindSafe(|| {
                csharp_sort(&mut w, |a, b| a.0.cmp(&b.0));
                w
            }))
        };
        match (run_csharp(&input), run_csharp(&input)) {
            (Ok(a), Ok(b)) => {
                if a.windows(2).any(|p| p[0].0 > p[1].0) {
                    fails.push("csharp sort: result is not ordered".into());
                }
                let mut ids: Vec<usize> = a.iter().map(|p| p.1).collect();
                ids.sort_unstable();
                if ids != (0..input.len()).collect::<Vec<_>>() || a.iter().any(|p| input[p.1].0 != p.0) {
                    fails.push("csharp sort: result is not a permutation of the input".into());
                }
                if a != b {
                    fails.push("csharp sort: two calls on the same input differ".into());
                }
            }
            _ => fails.push("csharp sort panicked".into()),
        }
        // osu_legacy re-orders hit objects that are already ordered by start time (both call sites
        // sort stably first; it only decides the order of simultaneous objects, like osu!stable);
        // the x position carries the original index
        let mut presorted = input.clone();
        presorted.sort_by_key(|p| p.0);
        let objs: Vec<HitObject> = presorted
            .iter()
            .map(|(key, i)| HitObject {
                pos: rosu_pp::model::hit_object::Pos::new(*i as f32, 0.0),
                start_time: *key as f64,
                kind: HitObjectKind::Circle,
            })
            .collect();
        let run_legacy = |v: &Vec<HitObject>| {
            let mut w = v.clone();
            catch_unwind(AssertUnwindSafe(|| {
                osu_legacy_sort(&mut w);
                w
            }))
        };
        match (run_legacy(&objs), run_legacy(&objs)) {
            (Ok(a), Ok(b)) => {
                if a.windows(2).any(|p| p[0].start_time > p[1].start_time) {
                    fails.push("osu_legacy sort: result is not ordered by start time".into());
                }
                let mut ids: Vec<usize> = a.iter().map(|h| h.pos.x as usize).collect();
                ids.sort_unstable();
                if ids != (0..input.len()).collect::<Vec<_>>() || a.iter().any(|h| input[h.pos.x as usize].0 as f64 != h.start_time) {
                    fails.push("osu_legacy sort: result is not a permutation of the input".into());
                }
                if a != b {
                    fails.push("osu_legacy sort: two calls on the same input differ".into());
                }
            }
            _ => fails.push("osu_legacy sort panicked".into()),
        }
        println!(
            "{}",
            Obj::new()
                .raw("id", k)
                .raw("n", ks.len())
                .str("pattern", pattern)
                .raw("fails", crate::json::arr(fails.iter().map(|s| crate::json::esc(s))))
                .raw("keys", if fails.is_empty() { "null".to_string() } else { crate::json::arr(ks.iter()) })
                .done()
        );
    }
}
