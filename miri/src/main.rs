//! Run under Miri (thorough tier of C11): exercises every `unsafe` block of rosu-pp on small
//! embedded maps — the self-referential gradual calculators (moved, boxed, partially
//! consumed, dropped mid-way), the decoder's point_split scratch buffer (sliders on several
//! lines, malformed curve lists), StrainsVec (strains + difficulty values) and the
//! NonZeroU64 clock-rate niche.  Miri checks every access (Stacked/Tree Borrows, use after
//! free, out-of-bounds, uninitialised reads, invalid values); this supports the Coq model of
//! Model/Owner.v, it does not replace it.
use rosu_pp::{
    any::ScoreState, catch::Catch, mania::Mania, model::mode::GameMode, osu::Osu, taiko::Taiko, Beatmap, Difficulty,
    GradualDifficulty, GradualPerformance,
};

const OSU: &str = "osu file format v14

[General]
Mode: 0

[Difficulty]
HPDrainRate:5
CircleSize:4
OverallDifficulty:7
ApproachRate:9
SliderMultiplier:1.4
SliderTickRate:1

[TimingPoints]
0,400,4,2,0,60,1,0
1600,-50,4,2,0,60,0,0

[HitObjects]
100,100,400,1,0,0:0:0:0:
200,150,800,2,0,B|250:200|250:200|300:100,1,140
300,200,1600,6,0,P|350:250|400:200,2,70
256,192,2400,12,0,3200,0:0:0:0:
50,60,3600,2,0,L|150:60,1,100
120,300,4000,1,0,0:0:0:0:
400,300,4200,2,0,C|300:300|200:200|100:300,1,210
10,10,4800,5,0,0:0:0:0:
";

const BAD_CURVES: &str = "osu file format v14

[Difficulty]
SliderMultiplier:1.4

[TimingPoints]
0,400,4,2,0,60,1,0

[HitObjects]
100,100,400,2,0,B|200:200|300,1,100
100,100,600,2,0,L|200:100,1,100
100,100,700,2,0,B|120:100|140:120|160:100|180:120|200:100|220:120|240:100|260:120|280:100|300:120|320:100|340:120|360:100,1,400
200,150,800,2,0,B|250:200|x:y|300:100,1,140
200,150,1200,2,0,B||||,1,140
200,150,1600,2,0,|1:1|B|2:2|L|3:3,1,140
200,150,2000,2,0,P|1:1|2:2|3:3|4:4,1,140
200,150,2400,2,0,B|250:200|300:100,1,140
";

fn gradual<F: FnMut() -> Option<usize>>(mut f: F) -> usize {
    let mut n = 0;
    while let Some(k) = f() {
        n += k;
    }
    n
}

fn main() {
    let map = Beatmap::from_bytes(OSU.as_bytes()).unwrap();
    let _ = Beatmap::from_bytes(BAD_CURVES.as_bytes());
    for mode in [GameMode::Osu, GameMode::Taiko, GameMode::Catch, GameMode::Mania] {
        let Ok(conv) = map.clone().convert(mode, &Default::default()) else { continue };
        for rate in [1.0, 1.5] {
            let diff = Difficulty::new().mods(8 + 16).clock_rate(rate);
            // one-shot + strains: StrainsVec push / retain / sort / into_vec / transmute
            let attrs = diff.calculate(&conv);
            let strains = diff.strains(&conv);
            std::hint::black_box((attrs.stars(), strains));
            // gradual: created, moved into a Box, moved out again, advanced, dropped half way
            let g = GradualDifficulty::new(diff.clone(), &conv);
            let boxed = Box::new(g);
            let mut g = *boxed;
            let total = g.len();
            let mut other = GradualDifficulty::new(diff.clone(), &conv);
            std::mem::swap(&mut g, &mut other);
            let _ = g.next();
            let _ = g.nth(1);
            drop(other);
            let v: Vec<_> = vec![g];
            let mut g = v.into_iter().next().unwrap();
            let n = gradual(|| g.next().map(|_| 1));
            assert!(n <= total);
            assert!(g.next().is_none());
            let mut half = GradualDifficulty::new(diff.clone(), &conv);
            let _ = half.nth(2);
            drop(half);
            // gradual performance keeps the gradual difficulty inside
            let mut gp = GradualPerformance::new(diff.clone(), &conv);
            let _ = gp.next(ScoreState::new());
            let mut gp = Box::new(gp);
            let _ = gp.nth(ScoreState::new(), 2);
            let _ = gp.last(ScoreState::new());
        }
    }
    // mode-specific calculators directly (their own structs hold the self-references)
    let mut o = Difficulty::new().gradual_difficulty_for_mode::<Osu>(&map).unwrap();
    let _ = o.next();
    let moved = o;
    let mut o = moved;
    let _ = o.nth(3);
    drop(o);
    let mut t = Difficulty::new().gradual_difficulty_for_mode::<Taiko>(&map).unwrap();
    let _ = t.next();
    let tb = Box::new(t);
    let mut t = *tb;
    let _ = t.nth(1);
    drop(t);
    let _ = Difficulty::new().gradual_difficulty_for_mode::<Catch>(&map).map(|mut c| c.nth(1));
    let _ = Difficulty::new().gradual_difficulty_for_mode::<Mania>(&map).map(|mut m| m.nth(1));
    // Beatmap has public fields too: objects appended without a hit sound (only taiko reads the
    // sounds, zipped with the objects), so lists with spare capacity reach the gradual calculator
    if let Ok(mut tampered) = map.clone().convert(GameMode::Taiko, &Default::default()) {
        let mut extra = tampered.hit_objects.last().cloned().unwrap();
        extra.start_time += 500.0;
        tampered.hit_objects.push(extra.clone());
        extra.start_time += 500.0;
        tampered.hit_objects.push(extra);
        let mut g = GradualDifficulty::new(Difficulty::new(), &tampered);
        let boxed = Box::new(g.next());
        std::hint::black_box(boxed);
        while g.next().is_some() {}
        let mut p = GradualPerformance::new(Difficulty::new(), &tampered);
        let _ = p.nth(ScoreState::new(), 3);
        drop(p);
    }
    // InspectDifficulty has public fields: values that never went through a setter
    for raw in [0.0f64, -0.0, -1.0, f64::NAN, 1e-320, 1e300] {
        let mut ins = Difficulty::new().inspect();
        ins.clock_rate = Some(raw);
        let d = ins.into_difficulty();
        let cr = d.clone().inspect().clock_rate;
        assert!(matches!(cr, Some(c) if (0.01..=100.0).contains(&c)) || raw.is_nan(), "clock rate {raw} became {cr:?}");
        std::hint::black_box(d.calculate(&map).stars());
    }
    println!("miri-ok");
}
